#!/usr/bin/env python3
"""Runs Kani proof harnesses of /verif/kani against /repo's working tree.

Library for ./check: build once, then one `cargo kani --harness X --exact` process per
harness (they share the target directory after the build), limited by a memory budget.
A failing harness is only reported as a violation after Kani's concrete counterexample
has been replayed natively by the same harness body (target/kreplay/.../kreplay)."""
import json, os, re, subprocess, sys, threading, time

VERIF = os.path.dirname(os.path.dirname(os.path.abspath(__file__)))
KDIR = os.path.join(VERIF, "kani")
TARGET = os.path.join(VERIF, "target", "kani")
RTARGET = os.path.join(VERIF, "target", "kreplay")
WORK = os.path.join(VERIF, "work")

def env():
    e = dict(os.environ)
    e["CARGO_NET_OFFLINE"] = "true"
    e["RUSTFLAGS"] = "--cfg similar_verif"
    e.pop("RUSTUP_TOOLCHAIN", None)
    return e

BASE = ["cargo", "kani", "--target-dir", TARGET, "-Z", "unstable-options", "-Z", "stubbing"]

def build():
    os.makedirs(WORK, exist_ok=True)
    r = subprocess.run(BASE + ["--only-codegen"], cwd=KDIR, env=env(), stdout=subprocess.PIPE, stderr=subprocess.STDOUT, text=True)
    if r.returncode != 0:
        sys.stdout.write(r.stdout[-4000:])
        return False
    e = env(); e["CARGO_TARGET_DIR"] = RTARGET
    r = subprocess.run(["cargo", "build", "--offline", "--release", "--bin", "kreplay"], cwd=KDIR, env=e, stdout=subprocess.PIPE, stderr=subprocess.STDOUT, text=True)
    if r.returncode != 0:
        sys.stdout.write(r.stdout[-4000:])
        return False
    return True

def parse_log(txt):
    d = {}
    m = re.search(r"VERIFICATION:- (SUCCESSFUL|FAILED)", txt)
    d["verdict"] = m.group(1) if m else None
    m = re.search(r"\*\* (\d+) of (\d+) failed", txt)
    if m:
        d["checks_failed"], d["checks"] = int(m.group(1)), int(m.group(2))
    m = re.search(r"\*\* (\d+) of (\d+) cover properties satisfied", txt)
    if m:
        d["covers_satisfied"], d["covers"] = int(m.group(1)), int(m.group(2))
    m = re.search(r"size of program expression: (\d+) steps", txt)
    if m: d["program_steps"] = int(m.group(1))
    m = re.search(r"Generated (\d+) VCC\(s\), (\d+) remaining", txt)
    if m: d["vccs"], d["vccs_after_simplification"] = int(m.group(1)), int(m.group(2))
    vs = re.findall(r"(\d+) variables, (\d+) clauses", txt)
    if vs: d["sat_variables"], d["sat_clauses"] = int(vs[-1][0]), int(vs[-1][1])
    d["solver_s"] = round(sum(float(x) for x in re.findall(r"Runtime Solver: ([0-9.e-]+)s", txt)), 3)
    m = re.search(r"Runtime Symex: ([0-9.e-]+)s", txt)
    if m: d["symex_s"] = float(m.group(1))
    m = re.search(r"Verification Time: ([0-9.]+)s", txt)
    if m: d["verification_s"] = float(m.group(1))
    d["stubs"] = sorted(set(re.findall(r"- Stub: (.*)", txt)))
    d["oom"] = "run out of memory" in txt
    d["failed_checks"] = re.findall(r"Failed Checks: (.*)", txt)[:6]
    d["unwinding_failure"] = any("unwinding assertion" in x for x in d["failed_checks"])
    return d

def playback_values(txt):
    """All concrete_vals blocks printed by --concrete-playback=print."""
    out = []
    for block in re.findall(r"let concrete_vals: Vec<Vec<u8>> = vec!\[(.*?)\n    \];", txt, re.S):
        rows = re.findall(r"vec!\[([0-9, ]*)\]", block)
        out.append([r.strip() for r in rows])
    return out

def native_samples(name, count=24):
    import random
    rnd = random.Random(int(os.environ.get("VERIF_SEED", "0") or 0) * 7919 + hash(name) % 1000)
    kre = os.path.join(RTARGET, "release", "kreplay")
    held = 0
    os.makedirs(WORK, exist_ok=True)
    for k in range(count):
        pool = [10, 13, 32, 97, 98, 0x0b, 0xc2, 0xa0, 0xff, 0, 1, 2, 3, 5, 255] + [rnd.randrange(256) for _ in range(6)]
        small = [0, 1, 2, 3, 4]
        rows = ["%d,0,0,0,0,0,0,0" % (rnd.choice(small) if (k % 2 == 0 or rnd.random() < 0.4) else rnd.choice(pool)) for _ in range(64)]
        f = os.path.join(WORK, "sample-%s-%d.vals" % (name.replace("::", "_"), k))
        open(f, "w").write("\n".join(rows) + "\n")
        rr = subprocess.run([kre, name, f], stdout=subprocess.PIPE, stderr=subprocess.STDOUT, text=True)
        if rr.returncode == 0:
            held += 1
            os.remove(f)
        elif rr.returncode == 1:
            return held, f
        else:
            os.remove(f)
    return held, None


def run_one(name, timeout_s, needs_stubs, replay_dir):
    log = os.path.join(WORK, "kani_%s.log" % name.replace("::", "_"))
    t0 = time.time()
    cmd = BASE + ["--output-format", "regular", "--verbose", "--harness", name, "--exact"]
    # own process group, so that a timeout can take cargo-kani, kani-driver and cbmc down together
    proc = subprocess.Popen(cmd, cwd=KDIR, env=env(), stdout=subprocess.PIPE, stderr=subprocess.STDOUT, text=True, start_new_session=True)
    try:
        txt, _ = proc.communicate(timeout=timeout_s)
    except subprocess.TimeoutExpired:
        import signal
        try:
            os.killpg(proc.pid, signal.SIGKILL)
        except Exception:
            pass
        try:
            txt, _ = proc.communicate(timeout=10)
        except Exception:
            txt = ""
        d = parse_log(txt or ""); d.update(harness=name, status="inconclusive", reason="timeout after %ds" % timeout_s, wall_s=round(time.time() - t0, 1))
        return d
    open(log, "w").write(txt)
    d = parse_log(txt)
    d["harness"] = name
    d["wall_s"] = round(time.time() - t0, 1)
    if d["verdict"] == "SUCCESSFUL":
        if needs_stubs and not d["stubs"]:
            d.update(status="inconclusive", reason="stub substitution not confirmed in the log")
        elif d.get("covers", 0) > 0 and d.get("covers_satisfied", 0) < d.get("covers", 0):
            d.update(status="inconclusive", reason="a cover (reachability witness) is unsatisfied: harness may be vacuous")
        else:
            d["status"] = "pass"
            # sanity of the harness oracle against the real code: the same harness body is run
            # natively on pseudo-random small inputs (seeded by VERIF_SEED); none may fail
            d["native_samples_held"], bad = native_samples(name)
            if bad:
                d.update(status="inconclusive", reason="harness passes under Kani but fails natively on sample input %s" % bad)
        return d
    if d["verdict"] is None or d["oom"] or not d["failed_checks"]:
        d.update(status="inconclusive", reason="CBMC did not finish (out of memory / crash); log %s" % log)
        return d
    if d["unwinding_failure"] and len(d["failed_checks"]) == 1:
        d.update(status="inconclusive", reason="unwinding bound too small")
        return d
    # a property failed: obtain the concrete counterexample and replay it natively
    cmd = BASE + ["-Z", "concrete-playback", "--concrete-playback=print", "--output-format", "terse", "--harness", name, "--exact"]
    try:
        r = subprocess.run(cmd, cwd=KDIR, env=env(), stdout=subprocess.PIPE, stderr=subprocess.STDOUT, text=True, timeout=timeout_s * 2)
    except subprocess.TimeoutExpired:
        d.update(status="inconclusive", reason="counterexample extraction timed out")
        return d
    vals = playback_values(r.stdout)
    d["counterexamples"] = len(vals)
    kre = os.path.join(RTARGET, "release", "kreplay")
    os.makedirs(replay_dir, exist_ok=True)
    for i, rows in enumerate(vals):
        f = os.path.join(replay_dir, "%s-%d.vals" % (name.replace("::", "_"), i))
        open(f, "w").write("\n".join(rows) + "\n")
        rr = subprocess.run([kre, name, f], stdout=subprocess.PIPE, stderr=subprocess.STDOUT, text=True)
        if rr.returncode == 1:
            d.update(status="violation", replay=f, replay_output=rr.stdout.strip()[-400:])
            return d
    d.update(status="inconclusive", reason="Kani reports failed checks %s but no counterexample reproduced natively" % d["failed_checks"][:2])
    return d

def run_many(harnesses, mem_budget_gb=48):
    """harnesses: list of dicts {name, timeout, mem_gb, stubs}.  Returns list of results."""
    results = []
    lock = threading.Condition()
    state = {"mem": 0}
    replay_dir = os.path.join(VERIF, "replays")
    def worker(h):
        with lock:
            while state["mem"] + h["mem_gb"] > mem_budget_gb and state["mem"] > 0:
                lock.wait()
            state["mem"] += h["mem_gb"]
        try:
            res = run_one(h["name"], h["timeout"], h.get("stubs", False), replay_dir)
        except Exception as ex:  # noqa
            res = {"harness": h["name"], "status": "inconclusive", "reason": "driver error: %r" % (ex,)}
        with lock:
            state["mem"] -= h["mem_gb"]
            results.append(res)
            lock.notify_all()
    # heaviest first
    ths = []
    for h in sorted(harnesses, key=lambda x: -x["mem_gb"]):
        t = threading.Thread(target=worker, args=(h,))
        t.start(); ths.append(t)
        time.sleep(0.05)
    for t in ths:
        t.join()
    return results

if __name__ == "__main__":
    ok = build()
    print("build", ok)
    names = sys.argv[1:]
    res = run_many([{"name": n, "timeout": 1800, "mem_gb": 6, "stubs": ("group" in n or "tok" in n)} for n in names])
    print(json.dumps(res, indent=1))
