#!/usr/bin/env python3
"""Ingest a seeded change produced by a sub-agent in /tmp/wt-<PROP>/SEED:
copies it to /verif/seeded/<name>/, confirms in a fresh scratch worktree that (1) the demo
passes on the unchanged tree, (2) the existing suite passes with the change, (3) the demo
fails with the change; then removes both worktrees.   usage: seed_ingest.py <PROP> <name> [srcdir]"""
import json, os, shutil, subprocess, sys
V = os.path.dirname(os.path.dirname(os.path.abspath(__file__)))
prop, name = sys.argv[1], sys.argv[2]
src = sys.argv[3] if len(sys.argv) > 3 else "/tmp/wt-%s" % prop
seed = os.path.join(src, "SEED")
dst = os.path.join(V, "seeded", name)
os.makedirs(dst, exist_ok=True)
for f in ("patch.diff", "demo.rs"):
    shutil.copy(os.path.join(seed, f), os.path.join(dst, f))
try:
    agent_meta = json.load(open(os.path.join(seed, "meta.json")))
except Exception as e:
    agent_meta = {"error": "agent meta.json unreadable: %r" % (e,)}
feat = (agent_meta.get("demo_features") or "").strip()
wt = "/tmp/vf-%s" % name
subprocess.run(["git", "-C", "/repo", "worktree", "remove", "--force", wt], capture_output=True)
subprocess.run(["git", "-C", "/repo", "worktree", "add", "-q", "--detach", wt, "HEAD"], check=True)
env = dict(os.environ); env["CARGO_TARGET_DIR"] = os.path.join(wt, "target")
def run(cmd):
    r = subprocess.run(cmd, cwd=wt, env=env, capture_output=True, text=True)
    return r.returncode, (r.stdout + r.stderr)[-1500:]
os.makedirs(os.path.join(wt, "tests"), exist_ok=True)
shutil.copy(os.path.join(dst, "demo.rs"), os.path.join(wt, "tests", "seed_demo.rs"))
fe = ["--features", feat] if feat else []
log = {}
rc, out = run(["cargo", "test", "--offline", "--test", "seed_demo"] + fe)
log["demo_on_unchanged_tree"] = {"exit": rc, "tail": out[-400:]}
rc2, out2 = run(["git", "apply", os.path.join(dst, "patch.diff")])
log["git_apply"] = {"exit": rc2, "tail": out2[-300:]}
os.remove(os.path.join(wt, "tests", "seed_demo.rs"))
rc3, out3 = run(["cargo", "test", "--workspace", "--no-fail-fast", "--offline"])
log["existing_suite_with_change"] = {"exit": rc3, "tail": "\n".join(l for l in out3.splitlines() if l.startswith("test result"))}
shutil.copy(os.path.join(dst, "demo.rs"), os.path.join(wt, "tests", "seed_demo.rs"))
rc4, out4 = run(["cargo", "test", "--offline", "--test", "seed_demo"] + fe)
log["demo_with_change"] = {"exit": rc4, "tail": out4[-600:]}
ok = rc == 0 and rc2 == 0 and rc3 == 0 and rc4 != 0
meta = {
    "id": name, "property": prop, "confirmed": ok,
    "summary": agent_meta.get("summary"), "needs": agent_meta.get("needs"), "clause": agent_meta.get("clause"),
    "demo_features": feat,
    "what_i_ran": {
        "scratch_worktree": wt + " (git worktree of /repo HEAD, removed afterwards)",
        "1_demo_without_change": "cargo test --offline --test seed_demo %s -> exit %d (must be 0)" % (" ".join(fe), rc),
        "2_apply": "git apply patch.diff -> exit %d" % rc2,
        "3_existing_suite_with_change": "cargo test --workspace --no-fail-fast --offline -> exit %d (must be 0): %s" % (rc3, log["existing_suite_with_change"]["tail"]),
        "4_demo_with_change": "cargo test --offline --test seed_demo -> exit %d (must be non-zero)" % rc4,
    },
    "agent_meta": agent_meta,
}
json.dump(meta, open(os.path.join(dst, "meta.json"), "w"), indent=1)
subprocess.run(["git", "-C", "/repo", "worktree", "remove", "--force", wt], capture_output=True)
if src.startswith("/tmp/wt-"):
    subprocess.run(["git", "-C", "/repo", "worktree", "remove", "--force", src], capture_output=True)
subprocess.run(["git", "-C", "/repo", "worktree", "prune"], capture_output=True)
print(name, "confirmed" if ok else "NOT CONFIRMED", json.dumps({k: v["exit"] for k, v in log.items()}))
if not ok:
    print(json.dumps(log, indent=1)[-2500:])
