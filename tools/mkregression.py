#!/usr/bin/env python3
"""Writes seeded/REGRESSION.md from the log(s) of work/regress.sh (a run of
tools/seed_eval.py over every seeded change, made from a snapshot with
`vp run --with-repo`).  usage: mkregression.py <log> [<commit>] [<log> <commit> ...]"""
import re, sys, os

def parse(path):
    rows, cur = [], None
    for line in open(path, errors="replace"):
        m = re.match(r"^=== (\S+) (\S+)", line)
        if m:
            cur = {"seed": m.group(1), "prop": m.group(2), "exit": None, "secs": None, "viol": 0, "known": 0}
            rows.append(cur)
            continue
        if cur is None:
            continue
        m = re.match(r"^(C\d+) exit (\d+) (\d+)s", line)
        if m:
            cur["exit"], cur["secs"] = int(m.group(2)), int(m.group(3))
        elif "VIOLATION property=" in line:
            cur["viol"] += 1
        elif "KNOWN-FINDING:" in line:
            cur["known"] += 1
    return rows

def main():
    args = sys.argv[1:]
    out = ["# Regression of the seeded changes against the checks", "",
           "Each seeded change (seeded/<id>/patch.diff) was applied to a private copy of the repository,",
           "the quick check of its property was run (`tools/seed_eval.py <id> <property>`), and the patch",
           "was reverted.  `exit 1` with VIOLATION lines means the change was caught; `exit 0` would be a miss.",
           "The runs were made from committed snapshots of /verif (`vp run --with-repo bash work/regress.sh`),",
           "so they are independent of whatever was being edited in /verif and /repo at the time.", ""]
    i = 0
    while i < len(args):
        log = args[i]
        commit = args[i + 1] if i + 1 < len(args) else "?"
        i += 2
        rows = parse(log)
        done = [r for r in rows if r["exit"] is not None]
        caught = [r for r in done if r["exit"] == 1 and r["viol"] > 0]
        out += ["## /verif at commit %s: %d changes run, %d caught, %d not caught" % (commit, len(done), len(caught), len(done) - len(caught)), "",
                "| seeded change | property | exit | VIOLATION lines shown | KNOWN-FINDING lines | wall s |", "|---|---|---|---|---|---|"]
        for r in done:
            out.append("| %s | %s | %d | %d | %d | %d |" % (r["seed"], r["prop"], r["exit"], r["viol"], r["known"], r["secs"]))
        out.append("")
        unfinished = [r["seed"] for r in rows if r["exit"] is None]
        if unfinished:
            out += ["not finished when this file was written: " + ", ".join(unfinished), ""]
    open(os.path.join(os.path.dirname(__file__), "..", "seeded", "REGRESSION.md"), "w").write("\n".join(out))
    print("wrote seeded/REGRESSION.md")

if __name__ == "__main__":
    main()
