#!/usr/bin/env python3
"""Regenerates /verif/MANIFEST.json from the table below (run after adding a check)."""
import json, os, subprocess
V = os.path.dirname(os.path.dirname(os.path.abspath(__file__)))

S_NOTE = ("Trusts rustc/std (the real code runs natively), z3 4.8.12 (libz3 C API), and the Sym/SymTxt/engine glue of /verif/symx; "
          "assumes the element type is touched only via PartialEq/Ord/Hash/DiffableStr; symbolic items hash to a constant (lawful) unless stated; "
          "sampled passing leaves are re-executed concretely with value hashing and must give the same observation; "
          "a counterexample is reported only after it reproduces natively (dev-semantics build and release-semantics build).")
K_NOTE = ("Kani 0.68 / CBMC 6.11 with CaDiCaL over the compiled MIR; unwinding assertions on; each harness has a kani::cover reachability witness; "
          "Vec::new / Vec::push / the vec![..] helper are replaced by non-growing versions with a loud capacity assertion where listed in the evidence; "
          "counterexamples are replayed natively by the same harness body (kreplay) before being reported.")

def S(text, tech, design, extra_note=""):
    return dict(engine="symx", technique=tech, text=text, note=S_NOTE + (" " + extra_note if extra_note else ""), design=design)
def SK(text, tech, design, extra_note=""):
    return dict(engine="symx+kani", technique=tech, text=text, note=S_NOTE + " " + K_NOTE + (" " + extra_note if extra_note else ""), design=design)
def Kc(text, tech, design, extra_note=""):
    return dict(engine="kani", technique=tech, text=text, note=K_NOTE + (" " + extra_note if extra_note else ""), design=design)

BOUNDED = " Bounded model checking, not a proof: everything beyond the stated bounds is outside the claim."

CHECKS = {
 "C01": S("Every path of the real myers/patience/lcs code within the shape bounds (range lengths <=4 quick / <=6 thorough, padded slices and offset lookups, three entry points) is executed on symbolic items of an unbounded alphabet; each path stands for all inputs with that equality pattern; the online monitor's claims hold on all of them, data claims by solver entailment; sub-range runs are compared with runs on the extracted slices." + BOUNDED,
          "symbolic execution of the real diff algorithms (z3-decided comparisons) with an online monitor hook, bounded by range length", "6/C01"),
 "C02": SK("Captured op lists of all capture entry points (incl. TextDiff::from_slices and TextDiffConfig::deadline) are validated on every path for n,m<=4/5, with the deadline as a symbolic clock; ratio range / ==1.0-iff-equal are decided per path, and get_diff_ratio's f32 arithmetic is model-checked bit-precisely by Kani for <=3 ops with lengths <=64 and for one Equal op up to 2^20. Structured longer inputs (one path each, up to 840 items a side; sub-check C02b: one text diff with 65 900 different tokens) are part of the bounds listed in the evidence." + BOUNDED,
           "symbolic execution of the capture pipeline (z3) + Kani/CBMC on get_diff_ratio (IEEE f32)", "6/C02"),
 "C03": SK("Myers and LCS, raw callbacks and captured ops: deleted+inserted == N+M-2L against a reference LCS whose comparisons are decided by the same solver, n,m<=4/6, plus structured longer inputs of up to 840 items a side (one path each; incl. 300..1000-round middle-snake searches over mostly similar inputs with swapped blocks); ratio == 2L/(N+M) per path and bit-precisely in Kani." + BOUNDED,
           "symbolic execution with a solver-decided reference LCS + Kani/CBMC on the ratio formula", "6/C03"),
 "C04": S("The generic text layer (TextDiffConfig::diff_*, iter_all_changes, iter_changes) runs on symbolic text (SymTxt) for all pattern pairs up to 2/3 characters plus longer patterns, 5 tokenizers x 3 algorithms: non-Insert values are pointer-identical to old tokens in order (so they concatenate to the old text), non-Delete to new tokens, indices consecutive from 0. The byte-level half (tokens of str/[u8] concatenate to the input) is decided by Kani in C06 for lines/words/chars/lines-and-newlines; unicode words / graphemes of the real types are not decided." + BOUNDED,
          "symbolic execution of the real generic text layer on a symbolic string type (z3)", "6/C04",
          "SymTxt's tokenizers are the harness's (trivial by construction, checked to partition the text on every path); the real str/[u8] tokenizers are C06."),
 "C05": S("Line diffs over symbolic lines (<=3/5 lines per side, LF/CRLF/CR, missing final newline, empty sides, 3 algorithms, radius 0..=2/3, header on/off, byte mode with invalid UTF-8 in every line): the diff stage is symbolic; the rendering of each path is produced by the real UnifiedDiff (Display and to_writer) on one model of the path and checked by an independent strict parser/applier (counts, true positions, order, exact application incl. the no-newline marker, empty output for equal inputs, context <= radius, deletions before insertions, writer bytes unchanged, Display == lossy(writer)); udiff::unified_diff on the instantiated real strings must agree; the same formatter object re-rendered after context_radius / header were changed must equal a fresh formatter. The compaction-swap stale-index defect is a listed known finding (attributed via hook H2)." + BOUNDED,
          "symbolic execution of the line diff (z3) + strict unified-diff parser/applier on each path's rendering", "6/C05",
          "Rendering copies line bytes without branching on them, so one model per path is exhaustive for that path."),
 "C06": Kc("The real impl DiffableStr for str and for [u8] (tokenize_lines, tokenize_words, tokenize_lines_and_newlines, tokenize_chars, plus len/as_bytes/as_str/ends_with_newline) on fully symbolic byte buffers of length 1..2 (quick; the [u8] line tokenizer and the str-vs-[u8] line equivalence also 3) / up to 3-4 (thorough): non-empty tokens that partition the input by pointer arithmetic, documented token shapes, and identical tokens from the str and [u8] implementations on valid UTF-8 (lines and chars; words / lines-and-newlines equivalence only where the harness fits in memory, see evidence). tokenize_unicode_words and tokenize_graphemes are NOT decided (third-party segmentation tables; Kani's compiler crashes on unicode-segmentation)." + BOUNDED,
           "Kani/CBMC bounded model checking of the real tokenizers on symbolic byte buffers", "6/C06"),
 "C07": S("With hook H1 the clock is a symbolic input: one z3 Bool per deadline probe with a latch, so expiry before the start, at every reachable probe, and never are all explored for 3 algorithms, n,m<=4/5, 7 entry points (incl. TextDiffConfig::deadline/timeout): valid script, finish once, bounded comparisons after expiry and, when the first probe already reports expiry, in total (constants.json), never-expiring == no deadline, and the deadline reaches the algorithm (>=1 probe on disjoint inputs)." + BOUNDED,
          "symbolic execution with a solver-controlled virtual clock (z3 Bool per deadline probe)", "6/C07"),
 "C08": SK("The failing hook call index k is a z3 Int; every position incl. finish and 'never' is explored for 3 algorithms x 7 adapter stacks x n,m<=4/5: exact error propagation, no call after the failure, finish once and last, NoFinishHook suppresses only finish, default replace = delete+insert; Kani adds the integer forwarding wrappers for all usize arguments." + BOUNDED,
           "symbolic execution with a symbolic failing-call index (z3) + Kani/CBMC on the forwarding wrappers", "6/C08"),
 "C09": S("Normal form (alternation, no empty op, Replace merging, insertion at its latest position by solver entailment) on every captured list of the C02 exploration (all algorithms, deadline on/off, all entry points), n,m<=4/5; C10 pushes arbitrary valid scripts through Compact<Replace>." + BOUNDED,
          "symbolic execution of the capture pipeline (z3), normal-form validator per path", "6/C09"),
 "C10": S("All valid scripts over sequences up to 4x4 (quick) / 6x6 (thorough): every lattice path cut into runs in every way, exact carried indices, only the script's Equal equalities assumed; fed through Compact, Replace, Compact<Replace>: valid output, same deleted/inserted counts, delivered by finish, normal form through both, exact carried indices through Replace alone." + BOUNDED,
          "symbolic execution of Compact/Replace on enumerated script skeletons with symbolic items (z3)", "6/C10"),
 "C11": S("Both indices of every captured op are recomputed from the consumed counts on every path (n,m<=4/5, 4 entry points). The pinned tree violates this at the compaction swap: recorded known finding, attributed per counterexample by re-executing it with hook H2's repair switch (a violation that survives the repair is reported)." + BOUNDED,
          "symbolic execution of the capture pipeline (z3) with exact-position validator; known-finding attribution by hook H2", "6/C11"),
 "C12": SK("group_diff_ops is model-checked by Kani on alternating op lists whose structure is concrete per harness (up to 3 ops quick / 7 ops thorough, all Equal/Delete/Insert/Replace positions up to the distinctions the code makes) with all lengths (1..=255), start offsets and the radius n (0..=255) symbolic, one harness per choice of which interior Equal runs exceed 2n; the oracle is the statement in straight-line arithmetic. Capture::into_grouped_ops and TextDiff::grouped_ops are checked as forwarders (Kani for Capture; engine S on the op lists of symbolic text diffs, radius 0..=3, where the statement is also evaluated natively)." + BOUNDED,
           "Kani/CBMC on group_diff_ops with symbolic lengths and radius + symbolic-execution check of the forwarders", "6/C12",
           "n*2 overflow for huge n and lengths above 255 are outside the claim."),
 "C13": SK("Kani: ChangesIter/iter_slices/apply_to_hook/as_tag_tuple for a fully symbolic op (any tag, offsets, lengths <=4) over symbolic byte sequences; engine S: whole-diff iteration == concatenation of per-op expansions (pointer identity) on every path of the text exploration, incl. UnifiedDiffHunk::iter_changes and Capture round-trip." + BOUNDED,
           "Kani/CBMC on the expansion iterators + symbolic execution of whole-diff iteration (z3)", "6/C13"),
 "C14": S("Text diff ops == capture_diff_slices over the same tokens on every path below the threshold (all pattern pairs x 5 tokenizers x 3 algorithms, algorithm()/newline_terminated()/from_* constructors) and above it (skeleton family of 99..103 pairwise-different tokens plus up to 2 extra tokens, char and line tokens); IdentifyDistinct<u8|u16|u32>: ids equal iff items equal for every pair, ranges preserved (n,m<=4/5, non-zero offsets)." + BOUNDED,
          "symbolic execution of TextDiffConfig::diff and IdentifyDistinct on symbolic tokens (z3), incl. a >100-token skeleton family", "6/C14",
          "Above the threshold, fresh extra tokens are assumed different from the skeleton tokens (copies are explicit shapes) so that a class-based Hash is lawful."),
 "C15": S("The harness decides with the solver which items are unique on both sides, computes the longest in-order subset, and requires patience (raw and captured) to report at least that many of them Equal, each paired with its counterpart; n,m<=4/5." + BOUNDED,
          "symbolic execution of patience with a solver-decided anchor reference", "6/C15"),
 "C16": S("Line diffs over symbolic lines of 1-3 symbolic words (<=6/8 words in total), 3 algorithms, inline deadline none / expired / built-in 500 ms under the symbolic clock: same tags and indices as the plain expansion, segments are consecutive sub-slices of the line (pointer identity), emphasis only in Delete/Insert of a Replace and never on a line break, missing_newline agrees; both sides of the 0.5 ratio gates are witnessed; three texts have a line of more than 65 536 units." + BOUNDED,
          "symbolic execution of iter_inline_changes on symbolic text (z3), virtual clock for the inline deadline", "6/C16",
          "With the unicode feature the inline code calls tokenize_unicode_words, which for SymTxt is the harness tokenizer."),
 "C17": S("TextDiffRemapper (new/from_text_diff/slice_old/slice_new/iter_slices) and the one-call helpers utils::diff_{chars,words,unicode_words,graphemes,lines,slices} on symbolic text for all pattern pairs x 5 tokenizers x 3 algorithms: same tags as slice-wise expansion, each slice is the substring covering exactly the op's tokens (pointer+length), both texts reconstructed, no empty slice, no panic. The helpers' first step on real str / [u8] input, the tokenizers (lossless, in-bounds, no panic, also on invalid UTF-8), is decided by the Kani tokenizer harnesses for all inputs of 1..=2 (thorough 3) bytes." + BOUNDED,
          "symbolic execution of the remapper and helper functions on a symbolic string type (z3); Kani/CBMC on the real str/[u8] tokenizers", "6/C17"),
 "C18": S("The real get_close_matches::<SymTxt> (both pre-filters, Myers, BinaryHeap, Ord of the string type) against an exhaustive ranking computed from a solver-decided LCS, for words/candidates up to 3 characters, up to 2/3 candidates (empty and duplicate ones included), n in 0..=3 and every cutoff at which the result can change (each attainable ratio, one ulp below/above, 0, 0.5, 1); plus the longer families listed in the evidence (exact-cutoff, block-structured, 47 candidates, near-identical candidates of 70..112 characters)." + BOUNDED,
          "symbolic execution of get_close_matches on symbolic strings (z3) against an exhaustive reference ranking", "6/C18"),
 "C19": S("Element comparisons are counted on every path: (a) all inputs n,m<=5/6, Myers against a reference D, Patience against its reported script; (b) a skeleton family of 50..200 (800 thorough) shared pairwise-different items plus <=2/3 free items. The bound C*(N+M+1)*(D+1) uses fixed constants (constants.json). (a) says nothing about growth and (b) is one family: periodic / small-alphabet / unrelated inputs of thousands of items are NOT claimed." + BOUNDED,
          "symbolic execution with comparison counting (z3); Patience measured on each path's model with a real hash", "6/C19",
          "For Patience the count is measured on the path's model with value hashing (a constant hash would make std's HashMap quadratic by construction of the harness)."),
 "C20": S("On every explored path (equality pattern): two symbolic executions, a native re-execution with value hashing, and the path's model instantiated as i64 and as order-preserving String relabelling (also on a second thread) must all return the path's ops; 3 algorithms, n,m<=4/5. Quantification over hasher seeds and thread schedules is NOT decided (not solver-controllable inputs); the str-vs-[u8] text clause is reduced to C06's tokenizer equivalence plus this relabelling clause." + BOUNDED,
          "symbolic execution (a path = an equality pattern) plus native re-executions on differently typed instantiations of each path's model", "6/C20"),
}

props = [json.loads(l) for l in open(os.path.join(V, "properties.jsonl"))]
checks = []
na = []
for p in props:
    pid = p["id"]
    if pid in CHECKS:
        c = CHECKS[pid]
        checks.append({
            "property_id": pid,
            "quick_cmd": "./check %s --tier quick" % pid,
            "thorough_cmd": "./check %s --tier thorough" % pid,
            "evidence_file": "evidence/%s.json" % pid,
            "replay_cmd_template": "./check --replay {path}",
            "engine": c["engine"],
            "level_claimed": {"category": "model_checking", "text": c["text"], "design_ref": c["design"]},
            "level_note": c["note"],
            "technique": c["technique"],
        })
    else:
        na.append({"property_id": pid, "reason": "check not built yet at this commit; no claim is made"})

hooks_commits = []
try:
    out = subprocess.run(["git", "-C", "/repo", "log", "--format=%H %s"], capture_output=True, text=True).stdout
    for l in out.splitlines():
        h, s = l.split(" ", 1)
        if s.startswith("verif-hook:"):
            hooks_commits.append(h)
except Exception:
    pass

m = {
 "version": 1,
 "setup_cmd": "./check --setup",
 "hooks": {
   "guard": "similar_verif",
   "enable": "RUSTFLAGS=\"--cfg similar_verif\" (set by ./check for every build of /repo: engine S, the Kani harness crate and the replay binaries)",
   "baseline_off_cmd": "cd /repo && cargo test --workspace --no-fail-fast --offline",
   "source_commits": hooks_commits,
   "add_only": True,
 },
 "engines": [
   {"name": "symx", "path": "symx", "serves_properties": sorted(k for k, c in CHECKS.items() if "symx" in c["engine"]),
    "kind_free_text": "source-level dynamic symbolic executor: instantiates similar's generic code with symbolic element / string types, decides every comparison with z3 (libz3 C API), DFS by re-execution, sharded over 16 processes"},
   {"name": "kani", "path": "kani", "serves_properties": sorted(k for k, c in CHECKS.items() if "kani" in c["engine"]),
    "kind_free_text": "Kani 0.68 / CBMC 6.11 proof harnesses over the compiled integer / byte kernels, with native replay of counterexamples"},
 ],
 "checks": checks,
 "not_applicable": na,
 "notes": "Every check is bounded (model_checking level) and decided by an SMT/SAT solver over the real code; see DESIGN.md. Exit 2 = inconclusive, never reported as success. Clauses that are not decided (unicode word / grapheme tokenizers of str/[u8]; hasher seeds and threads; large unstructured inputs for the work bound) are named in the level texts of C04/C06/C17/C20/C19 because the manifest has no per-clause field.",
}
json.dump(m, open(os.path.join(V, "MANIFEST.json"), "w"), indent=1)
print("wrote MANIFEST.json with", len(checks), "checks,", len(na), "not applicable")
