#!/usr/bin/env python3
"""Regenerates /verif/MANIFEST.json from the table below (run after adding a check)."""
import json, os, subprocess
V = os.path.dirname(os.path.dirname(os.path.abspath(__file__)))

S = "symbolic execution of the real generic code on symbolic items, every comparison decided by z3 (engine S); bounded by shape"
K = "Kani/CBMC bounded model checking of the compiled code (engine K)"

CHECKS = {
 "C01": dict(engine="symx", technique="symbolic execution of the real diff algorithms (z3-decided comparisons), online monitor hook, bounded by range length",
   text="Within the stated shape bounds (range lengths, padding layouts, index kinds, entry points) every path of the real myers/patience/lcs code is executed on symbolic items of an unbounded alphabet; each explored path stands for all inputs with that equality pattern, and the monitor's claims are asserted on all of them, data claims by solver entailment. Bounded model checking, not a proof: longer ranges are outside the claim.",
   note="Trusts rustc/std (native execution), z3 4.8.12, ~200 lines of Sym/engine glue; assumes the element type is touched only via PartialEq/Ord/Hash; Sym hashes to a constant in symbolic runs; every 16th passing leaf is re-executed concretely with value hashing and must give the same callbacks.",
   design="6/C01"),
}

NOT_YET = {}
props = [json.loads(l) for l in open(os.path.join(V, "properties.jsonl"))]
checks = []
na = []
for p in props:
    pid = p["id"]
    if pid in CHECKS:
        c = CHECKS[pid]
        checks.append({
            "property_id": pid,
            "quick_cmd": "./check %s --tier quick" % pid,
            "thorough_cmd": "./check %s --tier thorough" % pid,
            "evidence_file": "evidence/%s.json" % pid,
            "replay_cmd_template": "./check --replay {path}",
            "engine": c["engine"],
            "level_claimed": {"category": "model_checking", "text": c["text"], "design_ref": c["design"]},
            "level_note": c["note"],
            "technique": c["technique"],
        })
    else:
        na.append({"property_id": pid, "reason": NOT_YET.get(pid, "check not built yet at this commit (planned per DESIGN.md section 6; no claim is made until its check exists)")})

hooks_commits = []
try:
    out = subprocess.run(["git", "-C", "/repo", "log", "--format=%H %s"], capture_output=True, text=True).stdout
    for l in out.splitlines():
        h, s = l.split(" ", 1)
        if s.startswith("verif-hook:"):
            hooks_commits.append(h)
except Exception:
    pass

m = {
 "version": 1,
 "setup_cmd": "./check --setup",
 "hooks": {
   "guard": "similar_verif",
   "enable": "RUSTFLAGS=\"--cfg similar_verif\" (set by ./check for every build of /repo)",
   "baseline_off_cmd": "cd /repo && cargo test --workspace --no-fail-fast --offline",
   "source_commits": hooks_commits,
   "add_only": True,
 },
 "engines": [
   {"name": "symx", "path": "symx", "serves_properties": sorted(k for k, c in CHECKS.items() if "symx" in c["engine"]),
    "kind_free_text": "source-level dynamic symbolic executor: instantiates similar's generic code with a symbolic element type, decides every comparison with z3 (libz3 C API), DFS by re-execution, sharded over 16 processes"},
   {"name": "kani", "path": "kani", "serves_properties": sorted(k for k, c in CHECKS.items() if "kani" in c["engine"]),
    "kind_free_text": "Kani 0.68 / CBMC 6.11 proof harnesses over the compiled integer/byte kernels"},
 ],
 "checks": checks,
 "not_applicable": na,
 "notes": "Every check is bounded (model_checking level), decided by an SMT/SAT solver over the real code; see DESIGN.md. Exit 2 = inconclusive, never reported as success.",
}
json.dump(m, open(os.path.join(V, "MANIFEST.json"), "w"), indent=1)
print("wrote MANIFEST.json with", len(checks), "checks,", len(na), "not applicable")
