#!/usr/bin/env python3
"""Applies a seeded change to /repo, runs the given checks (quick tier), reverts /repo.
usage: tools/seed_eval.py <seed-id> <prop> [<prop> ...]   (results -> seeded/<id>/results.json)"""
import json, os, subprocess, sys, time
V = os.path.dirname(os.path.dirname(os.path.abspath(__file__)))
sid = sys.argv[1]
props = sys.argv[2:]
tier = os.environ.get("SEED_TIER", "quick")
d = os.path.join(V, "seeded", sid)
patch = os.path.join(d, "patch.diff")
st = subprocess.run(["git", "-C", "/repo", "status", "--porcelain"], capture_output=True, text=True).stdout.strip()
if st:
    print("refusing: /repo is not clean:\n" + st); sys.exit(2)
r = subprocess.run(["git", "-C", "/repo", "apply", patch])
if r.returncode != 0:
    print("patch does not apply"); sys.exit(2)
res = {}
import shutil
try:
    for p in props:
        ev = os.path.join(V, "evidence", p + ".json")
        keep = ev + ".keep"
        if os.path.exists(ev):
            shutil.copy(ev, keep)
        t0 = time.time()
        r = subprocess.run([os.path.join(V, "check"), p, "--tier", tier], capture_output=True, text=True)
        lines = [l for l in r.stdout.splitlines() if l.startswith(("VIOLATION", "KNOWN-FINDING", "INCONCLUSIVE", "CHECK", "  what"))]
        res[p] = {"exit": r.returncode, "wall_s": round(time.time() - t0, 1), "lines": [l[:400] for l in lines[:8]]}
        # the evidence of the unchanged tree stays in place (a seeded run is not evidence)
        if os.path.exists(keep):
            shutil.move(keep, ev)
        print(p, "exit", r.returncode, "%.0fs" % (time.time() - t0))
        for l in lines[:4]:
            print("   ", l[:300])
finally:
    subprocess.run(["git", "-C", "/repo", "checkout", "--", "."])
out = os.path.join(d, "results.json")
old = json.load(open(out)) if os.path.exists(out) else {}
old.update(res)
json.dump(old, open(out, "w"), indent=1)
