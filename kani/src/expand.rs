//! C13: DiffOp expansion (iter_changes / iter_slices / apply_to_hook /
//! as_tag_tuple) for a fully symbolic op over byte sequences.
//! Instantiation: Old = New = [u8], T = u8.
use similar::algorithms::{Capture, DiffHook};
use similar::{ChangeTag, DiffOp, DiffTag};

const N: usize = 8;
const MAXLEN: usize = 4;

fn any_op() -> DiffOp {
    let tag: u8 = crate::src::any();
    let o: usize = crate::src::any();
    let n: usize = crate::src::any();
    let l1: usize = crate::src::any();
    let l2: usize = crate::src::any();
    crate::src::assume(l1 <= MAXLEN && l2 <= MAXLEN && o <= N - MAXLEN && n <= N - MAXLEN);
    match tag % 4 {
        0 => DiffOp::Equal { old_index: o, new_index: n, len: l1 },
        1 => DiffOp::Delete { old_index: o, old_len: l1, new_index: n },
        2 => DiffOp::Insert { old_index: o, new_index: n, new_len: l1 },
        _ => DiffOp::Replace { old_index: o, old_len: l1, new_index: n, new_len: l2 },
    }
}

#[cfg_attr(kani, kani::proof)]
#[cfg_attr(kani, kani::unwind(10))]
pub fn expand_iter_changes() {
    let old: [u8; N] = crate::src::any();
    let new: [u8; N] = crate::src::any();
    let op = any_op();
    let (tag, or, nr) = op.as_tag_tuple();
    // as_tag_tuple / old_range / new_range / tag agree with the fields
    assert!(op.tag() == tag && op.old_range() == or && op.new_range() == nr);
    match op {
        DiffOp::Equal { old_index, new_index, len } => {
            assert!(tag == DiffTag::Equal && or == (old_index..old_index + len) && nr == (new_index..new_index + len))
        }
        DiffOp::Delete { old_index, old_len, new_index } => {
            assert!(tag == DiffTag::Delete && or == (old_index..old_index + old_len) && nr == (new_index..new_index))
        }
        DiffOp::Insert { old_index, new_index, new_len } => {
            assert!(tag == DiffTag::Insert && or == (old_index..old_index) && nr == (new_index..new_index + new_len))
        }
        DiffOp::Replace { old_index, old_len, new_index, new_len } => {
            assert!(tag == DiffTag::Replace && or == (old_index..old_index + old_len) && nr == (new_index..new_index + new_len))
        }
    }
    let mut it = op.iter_changes(&old[..], &new[..]);
    let (ol, nl) = (or.end - or.start, nr.end - nr.start);
    // the stated sequence, one change per consumed item
    let mut k = 0;
    match tag {
        DiffTag::Equal => {
            while k < ol {
                let c = it.next().unwrap();
                assert!(c.tag() == ChangeTag::Equal && c.old_index() == Some(or.start + k) && c.new_index() == Some(nr.start + k));
                assert!(c.value() == old[or.start + k]);
                k += 1;
            }
        }
        DiffTag::Delete => {
            while k < ol {
                let c = it.next().unwrap();
                assert!(c.tag() == ChangeTag::Delete && c.old_index() == Some(or.start + k) && c.new_index().is_none());
                assert!(c.value() == old[or.start + k]);
                k += 1;
            }
        }
        DiffTag::Insert => {
            while k < nl {
                let c = it.next().unwrap();
                assert!(c.tag() == ChangeTag::Insert && c.new_index() == Some(nr.start + k) && c.old_index().is_none());
                assert!(c.value() == new[nr.start + k]);
                k += 1;
            }
        }
        DiffTag::Replace => {
            while k < ol {
                let c = it.next().unwrap();
                assert!(c.tag() == ChangeTag::Delete && c.old_index() == Some(or.start + k) && c.new_index().is_none());
                assert!(c.value() == old[or.start + k]);
                k += 1;
            }
            let mut j = 0;
            while j < nl {
                let c = it.next().unwrap();
                assert!(c.tag() == ChangeTag::Insert && c.new_index() == Some(nr.start + j) && c.old_index().is_none());
                assert!(c.value() == new[nr.start + j]);
                j += 1;
            }
        }
    }
    assert!(it.next().is_none());
    assert!(it.next().is_none());
    crate::cover!(tag == DiffTag::Replace && ol == MAXLEN && nl == MAXLEN);
    crate::cover!(tag == DiffTag::Equal && ol == 0);
}

#[cfg_attr(kani, kani::proof)]
#[cfg_attr(kani, kani::unwind(10))]
pub fn expand_iter_slices() {
    let old: [u8; N] = crate::src::any();
    let new: [u8; N] = crate::src::any();
    let op = any_op();
    let (tag, or, nr) = op.as_tag_tuple();
    let mut it = op.iter_slices(&old[..], &new[..]);
    let same = |s: &[u8], base: &[u8; N], r: &std::ops::Range<usize>| -> bool {
        s.len() == r.end - r.start && (s.as_ptr() as usize) == (base.as_ptr() as usize) + r.start
    };
    match tag {
        DiffTag::Equal => {
            let (t, s) = it.next().unwrap();
            assert!(t == ChangeTag::Equal && same(s, &old, &or));
        }
        DiffTag::Delete => {
            let (t, s) = it.next().unwrap();
            assert!(t == ChangeTag::Delete && same(s, &old, &or));
        }
        DiffTag::Insert => {
            let (t, s) = it.next().unwrap();
            assert!(t == ChangeTag::Insert && same(s, &new, &nr));
        }
        DiffTag::Replace => {
            let (t, s) = it.next().unwrap();
            assert!(t == ChangeTag::Delete && same(s, &old, &or));
            let (t, s) = it.next().unwrap();
            assert!(t == ChangeTag::Insert && same(s, &new, &nr));
        }
    }
    assert!(it.next().is_none());
    crate::cover!(tag == DiffTag::Replace);
}

/// Fixed-size recorder (no heap).
struct Rec {
    calls: [(u8, usize, usize, usize, usize); 4],
    n: usize,
}
impl Rec {
    fn new() -> Rec {
        Rec { calls: [(0, 0, 0, 0, 0); 4], n: 0 }
    }
    fn rec(&mut self, c: (u8, usize, usize, usize, usize)) {
        if self.n < 4 {
            self.calls[self.n] = c;
        }
        self.n += 1;
    }
}
impl DiffHook for Rec {
    type Error = ();
    fn equal(&mut self, a: usize, b: usize, c: usize) -> Result<(), ()> {
        self.rec((1, a, b, c, 0));
        Ok(())
    }
    fn delete(&mut self, a: usize, b: usize, c: usize) -> Result<(), ()> {
        self.rec((2, a, b, c, 0));
        Ok(())
    }
    fn insert(&mut self, a: usize, b: usize, c: usize) -> Result<(), ()> {
        self.rec((3, a, b, c, 0));
        Ok(())
    }
    fn finish(&mut self) -> Result<(), ()> {
        self.rec((5, 0, 0, 0, 0));
        Ok(())
    }
}
/// same, but overriding replace
struct RecR(Rec);
impl DiffHook for RecR {
    type Error = ();
    fn equal(&mut self, a: usize, b: usize, c: usize) -> Result<(), ()> {
        self.0.equal(a, b, c)
    }
    fn delete(&mut self, a: usize, b: usize, c: usize) -> Result<(), ()> {
        self.0.delete(a, b, c)
    }
    fn insert(&mut self, a: usize, b: usize, c: usize) -> Result<(), ()> {
        self.0.insert(a, b, c)
    }
    fn replace(&mut self, a: usize, b: usize, c: usize, d: usize) -> Result<(), ()> {
        self.0.rec((4, a, b, c, d));
        Ok(())
    }
    fn finish(&mut self) -> Result<(), ()> {
        self.0.finish()
    }
}

fn any_wide_op() -> DiffOp {
    let tag: u8 = crate::src::any();
    let (o, n, l1, l2): (usize, usize, usize, usize) = (crate::src::any(), crate::src::any(), crate::src::any(), crate::src::any());
    match tag % 4 {
        0 => DiffOp::Equal { old_index: o, new_index: n, len: l1 },
        1 => DiffOp::Delete { old_index: o, old_len: l1, new_index: n },
        2 => DiffOp::Insert { old_index: o, new_index: n, new_len: l1 },
        _ => DiffOp::Replace { old_index: o, old_len: l1, new_index: n, new_len: l2 },
    }
}

/// C13 (re-applying an op reproduces it) and C08 (forwarding wrappers; default
/// replace = delete then insert with the same arguments), all `usize` values.
#[cfg_attr(kani, kani::proof)]
#[cfg_attr(kani, kani::unwind(6))]
pub fn expand_apply_to_hook_and_forwarding() {
    use similar::algorithms::NoFinishHook;
    let op = any_wide_op();
    // a hook that overrides replace sees exactly the op
    let mut r = RecR(Rec::new());
    op.apply_to_hook(&mut r).unwrap();
    assert!(r.0.n == 1);
    let c = r.0.calls[0];
    match op {
        DiffOp::Equal { old_index, new_index, len } => assert!(c == (1, old_index, new_index, len, 0)),
        DiffOp::Delete { old_index, old_len, new_index } => assert!(c == (2, old_index, old_len, new_index, 0)),
        DiffOp::Insert { old_index, new_index, new_len } => assert!(c == (3, old_index, new_index, new_len, 0)),
        DiffOp::Replace { old_index, old_len, new_index, new_len } => assert!(c == (4, old_index, old_len, new_index, new_len)),
    }
    // a hook that does not override replace receives delete then insert
    let mut p = Rec::new();
    op.apply_to_hook(&mut p).unwrap();
    if let DiffOp::Replace { old_index, old_len, new_index, new_len } = op {
        assert!(p.n == 2);
        assert!(p.calls[0] == (2, old_index, old_len, new_index, 0));
        assert!(p.calls[1] == (3, old_index, new_index, new_len, 0));
    } else {
        assert!(p.n == 1 && p.calls[0] == c);
    }
    // &mut D forwards verbatim, including replace and finish
    let mut r2 = RecR(Rec::new());
    {
        let mut m = &mut r2;
        op.apply_to_hook(&mut m).unwrap();
        m.finish().unwrap();
    }
    assert!(r2.0.n == 2 && r2.0.calls[0] == c && r2.0.calls[1] == (5, 0, 0, 0, 0));
    // NoFinishHook forwards everything except finish
    let mut nf = NoFinishHook::new(RecR(Rec::new()));
    op.apply_to_hook(&mut nf).unwrap();
    nf.finish().unwrap();
    let inner = nf.into_inner();
    assert!(inner.0.n == 1 && inner.0.calls[0] == c);
    crate::cover!(matches!(op, DiffOp::Replace { .. }));
}

/// Capture records exactly the op that is applied to it.
#[cfg_attr(kani, kani::proof)]
#[cfg_attr(kani, kani::unwind(4))]
#[cfg_attr(kani, kani::stub(std::vec::Vec::new, crate::stubs::vec_new))]
#[cfg_attr(kani, kani::stub(std::vec::Vec::push, crate::stubs::vec_push))]
pub fn expand_capture_roundtrip() {
    let op = any_wide_op();
    let mut c = Capture::new();
    op.apply_to_hook(&mut c).unwrap();
    assert!(c.ops().len() == 1 && c.ops()[0] == op);
    std::mem::forget(c);
}

/// The `idx`-th change of an op according to the statement (None past the end).
fn expected_change(op: &DiffOp, old: &[u8; N], new: &[u8; N], idx: usize) -> Option<(ChangeTag, Option<usize>, Option<usize>, u8)> {
    let (tag, or, nr) = op.as_tag_tuple();
    let (ol, nl) = (or.end - or.start, nr.end - nr.start);
    match tag {
        DiffTag::Equal => {
            if idx < ol {
                Some((ChangeTag::Equal, Some(or.start + idx), Some(nr.start + idx), old[or.start + idx]))
            } else {
                None
            }
        }
        DiffTag::Delete => {
            if idx < ol {
                Some((ChangeTag::Delete, Some(or.start + idx), None, old[or.start + idx]))
            } else {
                None
            }
        }
        DiffTag::Insert => {
            if idx < nl {
                Some((ChangeTag::Insert, None, Some(nr.start + idx), new[nr.start + idx]))
            } else {
                None
            }
        }
        DiffTag::Replace => {
            if idx < ol {
                Some((ChangeTag::Delete, Some(or.start + idx), None, old[or.start + idx]))
            } else if idx - ol < nl {
                Some((ChangeTag::Insert, None, Some(nr.start + (idx - ol)), new[nr.start + (idx - ol)]))
            } else {
                None
            }
        }
    }
}

fn same_change(c: Option<similar::Change<u8>>, e: Option<(ChangeTag, Option<usize>, Option<usize>, u8)>) -> bool {
    match (c, e) {
        (None, None) => true,
        (Some(c), Some(e)) => c.tag() == e.0 && c.old_index() == e.1 && c.new_index() == e.2 && c.value() == e.3,
        _ => false,
    }
}

/// C13: the sequence does not depend on how the iterator is driven - after `a` items taken
/// with next(), nth(b) is item a+b of the stated sequence and the iteration continues behind
/// it (this is what step_by / skip / nth callers see); size_hint brackets what is left.
#[cfg_attr(kani, kani::proof)]
#[cfg_attr(kani, kani::unwind(11))]
pub fn expand_iter_changes_resumed() {
    let old: [u8; N] = crate::src::any();
    let new: [u8; N] = crate::src::any();
    let op = any_op();
    let a: usize = crate::src::any();
    let b: usize = crate::src::any();
    crate::src::assume(a <= 2 * MAXLEN && b <= 2 * MAXLEN);
    let (_, or, nr) = op.as_tag_tuple();
    let total = if op.tag() == DiffTag::Equal { or.end - or.start } else { (or.end - or.start) + (nr.end - nr.start) };
    let mut it = op.iter_changes(&old[..], &new[..]);
    let mut k = 0;
    while k < a {
        let c = it.next();
        assert!(same_change(c, expected_change(&op, &old, &new, k)), "next() is not the stated item");
        k += 1;
    }
    let left = if total > a { total - a } else { 0 };
    let (lo, hi) = it.size_hint();
    assert!(lo <= left, "size_hint lower bound exceeds the items left");
    if let Some(h) = hi {
        assert!(left <= h, "size_hint upper bound is below the items left");
    }
    let c = it.nth(b);
    assert!(same_change(c, expected_change(&op, &old, &new, a + b)), "nth(b) after a items is not item a+b of the stated sequence");
    if a + b < total {
        let c2 = it.next();
        assert!(same_change(c2, expected_change(&op, &old, &new, a + b + 1)), "the item after nth(b) is not item a+b+1");
    }
    crate::cover!(op.tag() == DiffTag::Replace && a >= 1 && a + b >= (or.end - or.start) && a + b < total);
}

/// Same for iter_slices (at most two items), plus count().
#[cfg_attr(kani, kani::proof)]
#[cfg_attr(kani, kani::unwind(6))]
pub fn expand_iter_slices_resumed() {
    let old: [u8; N] = crate::src::any();
    let new: [u8; N] = crate::src::any();
    let op = any_op();
    let a: usize = crate::src::any();
    let b: usize = crate::src::any();
    crate::src::assume(a <= 3 && b <= 3);
    let (tag, or, nr) = op.as_tag_tuple();
    let total = if tag == DiffTag::Replace { 2 } else { 1 };
    let expect = |idx: usize| -> Option<(ChangeTag, usize, usize)> {
        let o = ((old.as_ptr() as usize) + or.start, or.end - or.start);
        let n = ((new.as_ptr() as usize) + nr.start, nr.end - nr.start);
        match (tag, idx) {
            (DiffTag::Equal, 0) => Some((ChangeTag::Equal, o.0, o.1)),
            (DiffTag::Delete, 0) => Some((ChangeTag::Delete, o.0, o.1)),
            (DiffTag::Insert, 0) => Some((ChangeTag::Insert, n.0, n.1)),
            (DiffTag::Replace, 0) => Some((ChangeTag::Delete, o.0, o.1)),
            (DiffTag::Replace, 1) => Some((ChangeTag::Insert, n.0, n.1)),
            _ => None,
        }
    };
    let same = |g: Option<(ChangeTag, &[u8])>, e: Option<(ChangeTag, usize, usize)>| -> bool {
        match (g, e) {
            (None, None) => true,
            (Some((t, s)), Some((et, p, l))) => t == et && s.len() == l && (s.as_ptr() as usize) == p,
            _ => false,
        }
    };
    let mut it = op.iter_slices(&old[..], &new[..]);
    let mut k = 0;
    while k < a {
        assert!(same(it.next(), expect(k)), "next() is not the stated slice");
        k += 1;
    }
    let left = if total > a { total - a } else { 0 };
    let (lo, hi) = it.size_hint();
    assert!(lo <= left && hi.map_or(true, |h| left <= h), "size_hint does not bracket the slices left");
    assert!(same(it.nth(b), expect(a + b)), "nth(b) after a slices is not slice a+b");
    let mut it2 = op.iter_slices(&old[..], &new[..]);
    let mut k = 0;
    while k < a {
        it2.next();
        k += 1;
    }
    assert!(it2.count() == left, "count() differs from the number of slices left");
    crate::cover!(tag == DiffTag::Replace && a == 1 && b == 0);
}
