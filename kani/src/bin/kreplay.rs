//! Native replay of a Kani counterexample: kreplay <harness> <file-with-concrete-vals-json>
//! exit 1 = the harness assertion fails on the real code (violation reproduced),
//! exit 0 = holds, 2/3 = inconclusive / infeasible.
#[cfg(kani)]
fn main() {}

#[cfg(not(kani))]
fn main() {
    let args: Vec<String> = std::env::args().collect();
    if args.len() == 2 && args[1] == "--list" {
        for (n, _) in kharness::TABLE {
            println!("{}", n);
        }
        return;
    }
    let name = &args[1];
    let txt = std::fs::read_to_string(&args[2]).expect("read values");
    // format: one line per value, comma-separated bytes
    let vals: Vec<Vec<u8>> = txt
        .lines()
        .filter(|l| !l.trim().is_empty())
        .map(|l| l.split(',').filter(|x| !x.trim().is_empty()).map(|x| x.trim().parse::<u8>().unwrap()).collect())
        .collect();
    let f = kharness::TABLE.iter().find(|(n, _)| n == name).unwrap_or_else(|| {
        println!("REPLAY result=inconclusive (unknown harness {})", name);
        std::process::exit(2)
    });
    kharness::src::load(vals);
    let r = std::panic::catch_unwind(|| (f.1)());
    match r {
        Ok(()) => {
            println!("REPLAY harness={} result=holds", name);
            std::process::exit(0)
        }
        Err(e) => {
            let msg = e.downcast_ref::<&str>().map(|s| s.to_string()).or_else(|| e.downcast_ref::<String>().cloned()).unwrap_or_default();
            println!("REPLAY harness={} result=VIOLATED {}", name, msg);
            std::process::exit(1)
        }
    }
}
