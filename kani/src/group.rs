//! C12: group_diff_ops on valid alternating op lists.  The *structure* of the
//! list (which positions are Equal / Delete / Insert / Replace) is concrete per
//! harness; all lengths, both start offsets and the radius `n` are symbolic.
#[cfg(kani)]
use crate::stubs;
#[cfg(not(kani))]
mod stubs {
    pub const CAP: usize = 8;
}
use similar::algorithms::{Capture, DiffHook};
use similar::{group_diff_ops, DiffOp};

const MAXV: usize = 255;

fn len() -> usize {
    let l: usize = crate::src::any();
    crate::src::assume(l >= 1 && l <= MAXV);
    l
}

/// Builds a valid script (in the sense of C02) for the pattern: 'E' equal,
/// 'D' delete, 'I' insert, 'R' replace; positions are consistent by construction.
fn build(pat: &[u8]) -> Vec<DiffOp> {
    let mut o: usize = crate::src::any();
    let mut n: usize = crate::src::any();
    crate::src::assume(o <= MAXV && n <= MAXV);
    let mut ops = Vec::with_capacity(stubs::CAP);
    let mut k = 0;
    while k < pat.len() {
        let l = len();
        match pat[k] {
            b'E' => {
                ops.push(DiffOp::Equal { old_index: o, new_index: n, len: l });
                o += l;
                n += l;
            }
            b'D' => {
                ops.push(DiffOp::Delete { old_index: o, old_len: l, new_index: n });
                o += l;
            }
            b'I' => {
                ops.push(DiffOp::Insert { old_index: o, new_index: n, new_len: l });
                n += l;
            }
            _ => {
                let l2 = len();
                ops.push(DiffOp::Replace { old_index: o, old_len: l, new_index: n, new_len: l2 });
                o += l;
                n += l2;
            }
        }
        k += 1;
    }
    ops
}

fn is_empty_equal(op: &DiffOp) -> bool {
    matches!(op, DiffOp::Equal { len: 0, .. })
}

/// next op of a group must be `op`; an Equal of length 0 ("zero items of
/// context") may be present or absent - it is not part of the claim.
fn expect(g: &Vec<DiffOp>, ri: &mut usize, op: DiffOp) {
    if is_empty_equal(&op) {
        if *ri < g.len() && is_empty_equal(&g[*ri]) {
            *ri += 1;
        }
    } else {
        assert!(*ri < g.len(), "group lacks an op the statement requires");
        assert!(g[*ri] == op, "op differs from the statement");
        *ri += 1;
    }
}

/// The statement of C12 for one structural pattern and one choice of which
/// interior Equal runs are longer than 2n (`mask`, bit j = j-th interior Equal).
/// Pattern and mask are constants, so the loop below is straight-line
/// arithmetic over the symbolic lengths for the model checker.
fn run_case(pat: &[u8], mask: u32) {
    let n: usize = crate::src::any();
    crate::src::assume(n <= MAXV);
    let ops = build(pat);
    let k = pat.len();
    // keep the fields: the vector is consumed by the call
    let mut fields = [(0usize, 0usize, 0usize, 0usize); 8];
    let mut i = 0;
    while i < k {
        let (_, o, nw) = ops[i].as_tag_tuple();
        fields[i] = (o.start, o.end - o.start, nw.start, nw.end - nw.start);
        i += 1;
    }
    // which interior Equal runs separate their neighbours
    let mut j = 0;
    let mut i = 0;
    let mut any_change = false;
    while i < k {
        if pat[i] != b'E' {
            any_change = true;
        } else if i != 0 && i != k - 1 {
            let long = (mask >> j) & 1 == 1;
            if long {
                crate::src::assume(fields[i].1 > 2 * n);
            } else {
                crate::src::assume(fields[i].1 <= 2 * n);
            }
            j += 1;
        }
        i += 1;
    }
    let real = group_diff_ops(ops, n);
    crate::cover!(true, "grouping returned");
    if !any_change {
        assert!(real.len() == 0, "no changes means no groups");
        std::mem::forget(real);
        return;
    }
    let groups = 1 + (mask.count_ones() as usize);
    assert!(real.len() == groups, "two changes are in different groups exactly when more than 2n equal items separate them");
    let mut g = 0usize;
    let mut ri = 0usize;
    let mut i = 0;
    while i < k {
        let (o, ol, nw, nl) = fields[i];
        match pat[i] {
            b'E' => {
                if i == 0 {
                    let c = if ol < n { ol } else { n };
                    expect(&real[g], &mut ri, DiffOp::Equal { old_index: o + ol - c, new_index: nw + ol - c, len: c });
                } else if i == k - 1 {
                    let c = if ol < n { ol } else { n };
                    expect(&real[g], &mut ri, DiffOp::Equal { old_index: o, new_index: nw, len: c });
                } else if (mask >> (interior_index(pat, i))) & 1 == 1 {
                    expect(&real[g], &mut ri, DiffOp::Equal { old_index: o, new_index: nw, len: n });
                    assert!(ri == real[g].len(), "group has more ops than the statement allows");
                    g += 1;
                    ri = 0;
                    expect(&real[g], &mut ri, DiffOp::Equal { old_index: o + ol - n, new_index: nw + ol - n, len: n });
                } else {
                    expect(&real[g], &mut ri, DiffOp::Equal { old_index: o, new_index: nw, len: ol });
                }
            }
            b'D' => expect(&real[g], &mut ri, DiffOp::Delete { old_index: o, old_len: ol, new_index: nw }),
            b'I' => expect(&real[g], &mut ri, DiffOp::Insert { old_index: o, new_index: nw, new_len: nl }),
            _ => expect(&real[g], &mut ri, DiffOp::Replace { old_index: o, old_len: ol, new_index: nw, new_len: nl }),
        }
        i += 1;
    }
    assert!(ri == real[g].len(), "last group has more ops than the statement allows");
    std::mem::forget(real);
}

fn interior_index(pat: &[u8], at: usize) -> u32 {
    let mut j = 0;
    let mut i = 1;
    while i < at {
        if pat[i] == b'E' {
            j += 1;
        }
        i += 1;
    }
    j
}

macro_rules! group_harness {
    ($name:ident, $pat:expr, $mask:expr, $unwind:expr) => {
        #[cfg_attr(kani, kani::proof)]
        #[cfg_attr(kani, kani::unwind($unwind))]
        #[cfg_attr(kani, kani::stub(std::vec::Vec::new, stubs::vec_new))]
        #[cfg_attr(kani, kani::stub(std::vec::Vec::push, stubs::vec_push))]
        #[cfg_attr(kani, kani::stub(alloc::boxed::box_assume_init_into_vec_unsafe, stubs::vec_from_array))]
        pub fn $name() {
            run_case($pat, $mask);
        }
    };
}

// the grouping code only tests "Equal or not", so one representative change
// kind per position, plus variants with the other kinds; one harness per
// choice of which interior Equal runs are long
group_harness!(group_empty, b"", 0, 3);
group_harness!(group_e, b"E", 0, 4);
group_harness!(group_d, b"D", 0, 4);
group_harness!(group_r, b"R", 0, 4);
group_harness!(group_ed, b"ED", 0, 5);
group_harness!(group_ie, b"IE", 0, 5);
group_harness!(group_ede, b"EDE", 0, 6);
group_harness!(group_ere, b"ERE", 0, 6);
group_harness!(group_dei_0, b"DEI", 0, 6);
group_harness!(group_dei_1, b"DEI", 1, 6);
group_harness!(group_rer_0, b"RER", 0, 6);
group_harness!(group_rer_1, b"RER", 1, 6);
group_harness!(group_eded_0, b"EDED", 0, 7);
group_harness!(group_eded_1, b"EDED", 1, 7);
group_harness!(group_ieie_0, b"IEIE", 0, 7);
group_harness!(group_ieie_1, b"IEIE", 1, 7);
group_harness!(group_edere_0, b"EDERE", 0, 8);
group_harness!(group_edere_1, b"EDERE", 1, 8);
group_harness!(group_deier_0, b"DEIER", 0, 8);
group_harness!(group_deier_1, b"DEIER", 1, 8);
group_harness!(group_deier_2, b"DEIER", 2, 8);
group_harness!(group_deier_3, b"DEIER", 3, 8);
group_harness!(group_ederei_0, b"EDEREI", 0, 9);
group_harness!(group_ederei_3, b"EDEREI", 3, 9);
group_harness!(group_ededede_0, b"EDEDEDE", 0, 10);
group_harness!(group_ededede_1, b"EDEDEDE", 1, 10);
group_harness!(group_ededede_2, b"EDEDEDE", 2, 10);
group_harness!(group_ededede_3, b"EDEDEDE", 3, 10);

/// Forwarding check: Capture::into_grouped_ops(n) is group_diff_ops(into_ops(), n).
#[cfg_attr(kani, kani::proof)]
#[cfg_attr(kani, kani::unwind(6))]
#[cfg_attr(kani, kani::stub(std::vec::Vec::new, stubs::vec_new))]
#[cfg_attr(kani, kani::stub(std::vec::Vec::push, stubs::vec_push))]
#[cfg_attr(kani, kani::stub(alloc::boxed::box_assume_init_into_vec_unsafe, stubs::vec_from_array))]
pub fn group_via_capture() {
    let n: usize = crate::src::any();
    crate::src::assume(n <= MAXV);
    let ops = build(b"DEI");
    let e = match ops[1] {
        DiffOp::Equal { len, .. } => len,
        _ => 0,
    };
    crate::src::assume(e > 2 * n);
    let mut c = Capture::new();
    let mut i = 0;
    while i < ops.len() {
        ops[i].apply_to_hook(&mut c).unwrap();
        i += 1;
    }
    c.finish().unwrap();
    let (o0, o1, o2) = (ops[0], ops[1], ops[2]);
    let real = c.into_grouped_ops(n);
    assert!(real.len() == 2);
    let (_, eo, en) = o1.as_tag_tuple();
    let mut ri = 0;
    expect(&real[0], &mut ri, o0);
    expect(&real[0], &mut ri, DiffOp::Equal { old_index: eo.start, new_index: en.start, len: n });
    assert!(ri == real[0].len());
    let mut ri = 0;
    expect(&real[1], &mut ri, DiffOp::Equal { old_index: eo.end - n, new_index: en.end - n, len: n });
    expect(&real[1], &mut ri, o2);
    assert!(ri == real[1].len());
    std::mem::forget(real);
    std::mem::forget(ops);
}
