//! Engine K: Kani proof harnesses over the integer / byte kernels of `similar`.
//! The same harness bodies compile natively (see `src.rs`) so that Kani's
//! concrete counterexamples are replayed against the real code.
#![cfg_attr(kani, feature(allocator_api))]
#![allow(dead_code, unused_imports)]
extern crate alloc;

pub mod src;

pub mod expand;
pub mod group;
pub mod ratio;
#[cfg(kani)]
mod stubs;
pub mod tok;

#[cfg(not(kani))]
include!(concat!(env!("OUT_DIR"), "/table.rs"));
