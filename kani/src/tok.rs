//! C06: the real `impl DiffableStr for str` and `for [u8]` tokenizers on fully
//! symbolic byte buffers.  One harness per tokenizer and buffer length.
#[cfg(kani)]
use crate::stubs;
#[cfg(not(kani))]
mod stubs {
    pub const CAP: usize = 8;
}
use similar::DiffableStr;

fn is_nl(b: u8) -> bool {
    b == b'\n' || b == b'\r'
}

/// tokens are non-empty and partition the input (pointer arithmetic inside the
/// input buffer: concatenation is the input byte for byte)
fn check_partition(base: *const u8, total: usize, toks: &[&[u8]]) {
    let mut off = 0usize;
    let mut i = 0;
    while i < toks.len() {
        let t = toks[i];
        assert!(!t.is_empty(), "empty token");
        assert!(t.as_ptr() as usize == base as usize + off, "token does not start where the previous one ended");
        off += t.len();
        i += 1;
    }
    assert!(off == total, "tokens do not cover the input");
}

/// line tokens: no line break except one terminator (LF, CRLF, lone CR) at the
/// end; only the last token may lack it; a lone CR is not followed by LF
fn check_lines(toks: &[&[u8]]) {
    let mut i = 0;
    while i < toks.len() {
        let t = toks[i];
        let n = t.len();
        let mut term = 0usize;
        if t[n - 1] == b'\n' {
            term = if n >= 2 && t[n - 2] == b'\r' { 2 } else { 1 };
        } else if t[n - 1] == b'\r' {
            term = 1;
            if i + 1 < toks.len() {
                assert!(toks[i + 1][0] != b'\n', "CR LF split across two line tokens");
            }
        }
        if term == 0 {
            assert!(i + 1 == toks.len(), "a line without terminator that is not the last");
        }
        let mut k = 0;
        while k + term < n {
            assert!(!is_nl(t[k]), "line break inside a line token");
            k += 1;
        }
        i += 1;
    }
}

fn as_bytes_vec<'a>(v: &[&'a str], out: &mut [&'a [u8]; 8]) -> usize {
    let mut i = 0;
    while i < v.len() {
        out[i] = v[i].as_bytes();
        i += 1;
    }
    v.len()
}

macro_rules! str_harness {
    ($name:ident, $len:expr, $unwind:expr, $which:ident) => {
        #[cfg_attr(kani, kani::proof)]
        #[cfg_attr(kani, kani::unwind($unwind))]
        #[cfg_attr(kani, kani::stub(std::vec::Vec::new, stubs::vec_new))]
        #[cfg_attr(kani, kani::stub(std::vec::Vec::push, stubs::vec_push))]
        pub fn $name() {
            let buf: [u8; $len] = crate::src::any();
            let s = match std::str::from_utf8(&buf) {
                Ok(s) => s,
                Err(_) => {
                    crate::src::assume(false);
                    unreachable!()
                }
            };
            $which(s);
        }
    };
}

fn str_lines(s: &str) {
    let v = s.tokenize_lines();
    let mut b: [&[u8]; 8] = [&[]; 8];
    let n = as_bytes_vec(&v, &mut b);
    check_partition(s.as_ptr(), s.len(), &b[..n]);
    check_lines(&b[..n]);
    crate::cover!(n >= 1, "at least one line");
    std::mem::forget(v);
}

fn str_lines_and_newlines(s: &str) {
    let v = s.tokenize_lines_and_newlines();
    let mut b: [&[u8]; 8] = [&[]; 8];
    let n = as_bytes_vec(&v, &mut b);
    check_partition(s.as_ptr(), s.len(), &b[..n]);
    // alternating maximal runs of newline / non-newline bytes (CR and LF are ASCII,
    // so the byte view is exact for valid UTF-8)
    let mut i = 0;
    while i < n {
        let t = b[i];
        let cls = is_nl(t[0]);
        let mut k = 0;
        while k < t.len() {
            assert!(is_nl(t[k]) == cls, "mixed newline / non-newline token");
            k += 1;
        }
        if i > 0 {
            assert!(is_nl(b[i - 1][0]) != cls, "adjacent tokens of the same class (not maximal)");
        }
        i += 1;
    }
    crate::cover!(n >= 1, "at least one run");
    std::mem::forget(v);
}

fn str_words(s: &str) {
    let v = s.tokenize_words();
    let mut b: [&[u8]; 8] = [&[]; 8];
    let n = as_bytes_vec(&v, &mut b);
    check_partition(s.as_ptr(), s.len(), &b[..n]);
    let mut prev: Option<bool> = None;
    let mut i = 0;
    while i < v.len() {
        let mut cls: Option<bool> = None;
        for c in v[i].chars() {
            let w = c.is_whitespace();
            match cls {
                None => cls = Some(w),
                Some(x) => assert!(x == w, "token mixes whitespace and non-whitespace"),
            }
        }
        if let (Some(p), Some(c)) = (prev, cls) {
            assert!(p != c, "adjacent word tokens of the same class (not maximal)");
        }
        prev = cls;
        i += 1;
    }
    crate::cover!(n >= 1, "at least one token");
    std::mem::forget(v);
}

fn str_chars(s: &str) {
    let v = s.tokenize_chars();
    let mut b: [&[u8]; 8] = [&[]; 8];
    let n = as_bytes_vec(&v, &mut b);
    check_partition(s.as_ptr(), s.len(), &b[..n]);
    let mut i = 0;
    while i < v.len() {
        let mut it = v[i].chars();
        assert!(it.next().is_some() && it.next().is_none(), "char token is not exactly one scalar value");
        i += 1;
    }
    crate::cover!(n >= 1, "at least one char");
    std::mem::forget(v);
}

fn str_misc(s: &str) {
    assert!(DiffableStr::len(s) == s.len());
    assert!(DiffableStr::as_bytes(s).as_ptr() == s.as_ptr() && DiffableStr::as_bytes(s).len() == s.len());
    assert!(DiffableStr::as_str(s).map(|x| x.as_ptr()) == Some(s.as_ptr()));
    let last = s.as_bytes().last().copied();
    assert!(s.ends_with_newline() == matches!(last, Some(b'\n') | Some(b'\r')));
    assert!(DiffableStr::is_empty(s) == (s.len() == 0));
    let l = DiffableStr::to_string_lossy(s);
    assert!(l.as_ptr() == s.as_ptr() && l.len() == s.len());
}

str_harness!(tok_str_lines_1, 1, 3, str_lines);
str_harness!(tok_str_lines_2, 2, 4, str_lines);
str_harness!(tok_str_lines_3, 3, 5, str_lines);
str_harness!(tok_str_lines_4, 4, 6, str_lines);
str_harness!(tok_str_lnl_1, 1, 3, str_lines_and_newlines);
str_harness!(tok_str_lnl_2, 2, 4, str_lines_and_newlines);
str_harness!(tok_str_lnl_3, 3, 5, str_lines_and_newlines);
str_harness!(tok_str_lnl_4, 4, 6, str_lines_and_newlines);
str_harness!(tok_str_words_1, 1, 3, str_words);
str_harness!(tok_str_words_2, 2, 4, str_words);
str_harness!(tok_str_words_3, 3, 5, str_words);
str_harness!(tok_str_words_4, 4, 6, str_words);
str_harness!(tok_str_chars_1, 1, 3, str_chars);
str_harness!(tok_str_chars_2, 2, 4, str_chars);
str_harness!(tok_str_chars_3, 3, 5, str_chars);
str_harness!(tok_str_misc_3, 3, 5, str_misc);

// ---------------------------------------------------------------- [u8]

macro_rules! bytes_harness {
    ($name:ident, $len:expr, $unwind:expr, $which:ident) => {
        #[cfg_attr(kani, kani::proof)]
        #[cfg_attr(kani, kani::unwind($unwind))]
        #[cfg_attr(kani, kani::stub(std::vec::Vec::new, stubs::vec_new))]
        #[cfg_attr(kani, kani::stub(std::vec::Vec::push, stubs::vec_push))]
        pub fn $name() {
            let buf: [u8; $len] = crate::src::any();
            $which(&buf[..]);
        }
    };
}

fn copy_toks<'a>(v: &[&'a [u8]], out: &mut [&'a [u8]; 8]) -> usize {
    let mut i = 0;
    while i < v.len() {
        out[i] = v[i];
        i += 1;
    }
    v.len()
}

fn bytes_lines(s: &[u8]) {
    let v = s.tokenize_lines();
    let mut b: [&[u8]; 8] = [&[]; 8];
    let n = copy_toks(&v, &mut b);
    check_partition(s.as_ptr(), s.len(), &b[..n]);
    check_lines(&b[..n]);
    crate::cover!(n >= 1, "at least one line");
    std::mem::forget(v);
}
fn bytes_lines_and_newlines(s: &[u8]) {
    let v = s.tokenize_lines_and_newlines();
    let mut b: [&[u8]; 8] = [&[]; 8];
    let n = copy_toks(&v, &mut b);
    check_partition(s.as_ptr(), s.len(), &b[..n]);
    let mut i = 0;
    while i < n {
        let t = b[i];
        let cls = is_nl(t[0]);
        let mut k = 0;
        while k < t.len() {
            assert!(is_nl(t[k]) == cls, "mixed newline / non-newline token");
            k += 1;
        }
        if i > 0 {
            assert!(is_nl(b[i - 1][0]) != cls, "adjacent tokens of the same class (not maximal)");
        }
        i += 1;
    }
    std::mem::forget(v);
}
fn bytes_words(s: &[u8]) {
    let v = s.tokenize_words();
    let mut b: [&[u8]; 8] = [&[]; 8];
    let n = copy_toks(&v, &mut b);
    check_partition(s.as_ptr(), s.len(), &b[..n]);
    // byte-level part of the shape that is exact without decoding: an ASCII
    // whitespace byte and an ASCII non-whitespace byte never share a token
    let mut i = 0;
    while i < n {
        let t = b[i];
        let mut ws = false;
        let mut nws = false;
        let mut k = 0;
        while k < t.len() {
            if t[k] < 0x80 {
                if (t[k] as char).is_whitespace() {
                    ws = true;
                } else {
                    nws = true;
                }
            }
            k += 1;
        }
        assert!(!(ws && nws), "token mixes ASCII whitespace and non-whitespace");
        i += 1;
    }
    std::mem::forget(v);
}
fn bytes_chars(s: &[u8]) {
    let v = s.tokenize_chars();
    let mut b: [&[u8]; 8] = [&[]; 8];
    let n = copy_toks(&v, &mut b);
    check_partition(s.as_ptr(), s.len(), &b[..n]);
    // a token holds at most one UTF-8 lead / ASCII byte at its start: it never
    // spans two scalar values
    let mut i = 0;
    while i < n {
        let t = b[i];
        assert!(t.len() <= 4);
        let mut k = 1;
        while k < t.len() {
            assert!(t[k] & 0xC0 == 0x80, "char token contains a second non-continuation byte");
            k += 1;
        }
        // a token of two or more bytes is (a prefix of) a well-formed UTF-8 sequence: the lead
        // byte announces at least that many bytes and the second byte lies in the range that
        // lead byte allows (Unicode table 3-7) - so it is one scalar value, or one truncated
        // sequence that lossy decoding replaces by a single U+FFFD; overlong forms, encoded
        // surrogates and values past U+10FFFF are never glued into one token
        if t.len() >= 2 {
            let (lead, second) = (t[0], t[1]);
            let want = if lead >= 0xC2 && lead <= 0xDF {
                2
            } else if lead >= 0xE0 && lead <= 0xEF {
                3
            } else if lead >= 0xF0 && lead <= 0xF4 {
                4
            } else {
                0
            };
            assert!(t.len() <= want, "char token longer than its lead byte announces");
            let (lo, hi) = match lead {
                0xE0 => (0xA0, 0xBF),
                0xED => (0x80, 0x9F),
                0xF0 => (0x90, 0xBF),
                0xF4 => (0x80, 0x8F),
                _ => (0x80, 0xBF),
            };
            assert!(second >= lo && second <= hi, "char token is an ill-formed sequence (overlong / surrogate / out of range) glued into one token");
        }
        i += 1;
    }
    std::mem::forget(v);
}
fn bytes_misc(s: &[u8]) {
    assert!(DiffableStr::len(s) == s.len());
    assert!(DiffableStr::as_bytes(s).as_ptr() == s.as_ptr());
    assert!(DiffableStr::as_str(s).is_some() == std::str::from_utf8(s).is_ok());
    assert!(s.ends_with_newline() == matches!(s.last().copied(), Some(b'\n') | Some(b'\r')));
}

bytes_harness!(tok_bytes_lines_1, 1, 3, bytes_lines);
bytes_harness!(tok_bytes_lines_2, 2, 4, bytes_lines);
bytes_harness!(tok_bytes_lines_3, 3, 5, bytes_lines);
bytes_harness!(tok_bytes_lnl_2, 2, 4, bytes_lines_and_newlines);
bytes_harness!(tok_bytes_lnl_3, 3, 5, bytes_lines_and_newlines);
bytes_harness!(tok_bytes_words_2, 2, 4, bytes_words);
bytes_harness!(tok_bytes_words_3, 3, 5, bytes_words);
bytes_harness!(tok_bytes_chars_2, 2, 4, bytes_chars);
bytes_harness!(tok_bytes_chars_3, 3, 5, bytes_chars);
bytes_harness!(tok_bytes_chars_4, 4, 6, bytes_chars);
bytes_harness!(tok_bytes_misc_3, 3, 5, bytes_misc);

// ---------------------------------------------------------------- str vs [u8] on valid UTF-8

macro_rules! same_harness {
    ($name:ident, $len:expr, $unwind:expr, $m:ident) => {
        #[cfg_attr(kani, kani::proof)]
        #[cfg_attr(kani, kani::unwind($unwind))]
        #[cfg_attr(kani, kani::stub(std::vec::Vec::new, stubs::vec_new))]
        #[cfg_attr(kani, kani::stub(std::vec::Vec::push, stubs::vec_push))]
        pub fn $name() {
            let buf: [u8; $len] = crate::src::any();
            let s = match std::str::from_utf8(&buf) {
                Ok(s) => s,
                Err(_) => {
                    crate::src::assume(false);
                    unreachable!()
                }
            };
            let a = s.$m();
            let b = buf[..].$m();
            assert!(a.len() == b.len(), "str and [u8] return different numbers of tokens");
            let mut i = 0;
            while i < a.len() {
                assert!(a[i].as_ptr() == b[i].as_ptr() && a[i].len() == b[i].len(), "str and [u8] tokens differ");
                i += 1;
            }
            crate::cover!(a.len() >= 1, "at least one token");
            std::mem::forget(a);
            std::mem::forget(b);
        }
    };
}

same_harness!(tok_same_lines_2, 2, 4, tokenize_lines);
same_harness!(tok_same_lines_3, 3, 5, tokenize_lines);
same_harness!(tok_same_lnl_2, 2, 4, tokenize_lines_and_newlines);
same_harness!(tok_same_lnl_3, 3, 5, tokenize_lines_and_newlines);
same_harness!(tok_same_words_2, 2, 4, tokenize_words);
same_harness!(tok_same_words_3, 3, 5, tokenize_words);
same_harness!(tok_same_chars_2, 2, 4, tokenize_chars);
same_harness!(tok_same_chars_3, 3, 5, tokenize_chars);


// ---------------------------------------------------------------- longer ASCII inputs with a symbolic window
//
// 18 / 34 bytes of concrete ASCII filler with a window of 3 symbolic ASCII bytes straddling
// offset 16 / 32: chunked or look-ahead based scanning that misbehaves at a block boundary
// shows up here.  The window is assumed ASCII so that no UTF-8 validation is needed.
// (The same harness for the word and lines-and-newlines tokenizers did not finish in 2000 s.)

macro_rules! window_harness {
    ($name:ident, $len:expr, $at:expr, $unwind:expr, $m:ident, $shape:ident) => {
        #[cfg_attr(kani, kani::proof)]
        #[cfg_attr(kani, kani::unwind($unwind))]
        #[cfg_attr(kani, kani::stub(std::vec::Vec::new, stubs::vec_new))]
        #[cfg_attr(kani, kani::stub(std::vec::Vec::push, stubs::vec_push))]
        pub fn $name() {
            let mut buf = [b'x'; $len];
            let w0: u8 = crate::src::any();
            let w1: u8 = crate::src::any();
            let w2: u8 = crate::src::any();
            crate::src::assume(w0 < 0x80 && w1 < 0x80 && w2 < 0x80);
            buf[$at] = w0;
            buf[$at + 1] = w1;
            buf[$at + 2] = w2;
            // SAFETY: all bytes are ASCII
            let s = unsafe { std::str::from_utf8_unchecked(&buf) };
            let v = s.$m();
            let mut b: [&[u8]; 8] = [&[]; 8];
            let n = as_bytes_vec(&v, &mut b);
            check_partition(s.as_ptr(), s.len(), &b[..n]);
            $shape(&b[..n]);
            // the byte implementation returns the same tokens
            let w = buf[..].$m();
            assert!(w.len() == v.len(), "str and [u8] return different numbers of tokens");
            let mut i = 0;
            while i < w.len() {
                assert!(w[i].as_ptr() == v[i].as_ptr() && w[i].len() == v[i].len(), "str and [u8] tokens differ");
                i += 1;
            }
            crate::cover!(n >= 2, "a separator inside the window");
            std::mem::forget(v);
            std::mem::forget(w);
        }
    };
}

fn ascii_words_shape(toks: &[&[u8]]) {
    // ASCII only: a token is all whitespace or all non-whitespace, adjacent tokens differ
    let mut i = 0;
    while i < toks.len() {
        let t = toks[i];
        let cls = (t[0] as char).is_whitespace();
        let mut k = 0;
        while k < t.len() {
            assert!((t[k] as char).is_whitespace() == cls, "token mixes whitespace and non-whitespace");
            k += 1;
        }
        if i > 0 {
            assert!((toks[i - 1][0] as char).is_whitespace() != cls, "adjacent word tokens of the same class (not maximal)");
        }
        i += 1;
    }
}

fn ascii_lnl_shape(toks: &[&[u8]]) {
    let mut i = 0;
    while i < toks.len() {
        let t = toks[i];
        let cls = is_nl(t[0]);
        let mut k = 0;
        while k < t.len() {
            assert!(is_nl(t[k]) == cls, "mixed newline / non-newline token");
            k += 1;
        }
        if i > 0 {
            assert!(is_nl(toks[i - 1][0]) != cls, "adjacent tokens of the same class (not maximal)");
        }
        i += 1;
    }
}

window_harness!(tok_window_lines_18_at14, 18, 14, 21, tokenize_lines, check_lines);
window_harness!(tok_window_lines_34_at30, 34, 30, 37, tokenize_lines, check_lines);

// ---------------------------------------------------------------- long byte inputs: not reached
//
// A harness running the [u8] tokenizers on 72 bytes of concrete filler with a window of 3
// symbolic bytes (arbitrary, or masked to ASCII) inside one 8-byte word / across the 64-byte
// mark - meant for word-at-a-time scanning that only switches on for inputs of 64+ bytes
// (seeded change C06d) - did not get through CBMC's symbolic execution in 1800 s (4.4 GB):
// <[u8]>::char_indices decodes through bstr's UTF-8 automaton, and 72 iterations of it with a
// symbolic byte in flight are beyond what this engine unrolls in the budget.  The harness was
// removed; inputs of 64+ bytes are outside the bounds of C06 (DESIGN.md section 12).
