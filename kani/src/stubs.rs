//! Non-growing replacements for Vec::new / Vec::push / the `vec![a, b, ..]`
//! helper (see DESIGN.md section 4): they keep Vec's list semantics and remove
//! only reallocation and the amortised-growth arithmetic, which is what makes
//! CBMC run out of memory on code that builds vectors under symbolic branches.
//! Exceeding the reserved capacity is a loud assertion failure, never a
//! silently cut path.
use std::alloc::Allocator;
use std::mem::MaybeUninit;

pub const CAP: usize = 8;

pub fn vec_new<T>() -> Vec<T> {
    Vec::with_capacity(CAP)
}

pub fn vec_push<T, A: Allocator>(v: &mut Vec<T, A>, x: T) {
    let l = v.len();
    assert!(l < v.capacity(), "verification stub: reserved capacity exceeded");
    unsafe {
        std::ptr::write(v.as_mut_ptr().add(l), x);
        v.set_len(l + 1);
    }
}

/// `vec![a, b, ..]` expands to this helper; the original returns a vector whose
/// capacity is exactly N, so the next push reallocates.
pub fn vec_from_array<T, const N: usize>(b: Box<MaybeUninit<[T; N]>>) -> Vec<T> {
    let mut v: Vec<T> = Vec::with_capacity(if N > CAP { N } else { CAP });
    let src = Box::into_raw(b) as *const T;
    let mut i = 0;
    while i < N {
        unsafe {
            std::ptr::write(v.as_mut_ptr().add(i), std::ptr::read(src.add(i)));
        }
        i += 1;
    }
    unsafe { v.set_len(N) };
    // the box's allocation is leaked (harmless in a proof harness)
    v
}
