//! C02 / C03: get_diff_ratio (real IEEE f32 semantics in CBMC).
use similar::{get_diff_ratio, DiffOp};

fn any_op(max_len: usize) -> (DiffOp, usize) {
    let tag: u8 = crate::src::any();
    let a: usize = crate::src::any();
    let b: usize = crate::src::any();
    let l1: usize = crate::src::any();
    let l2: usize = crate::src::any();
    crate::src::assume(a <= 1 << 20 && b <= 1 << 20 && l1 <= max_len && l2 <= max_len);
    match tag % 4 {
        0 => (DiffOp::Equal { old_index: a, new_index: b, len: l1 }, l1),
        1 => (DiffOp::Delete { old_index: a, old_len: l1, new_index: b }, 0),
        2 => (DiffOp::Insert { old_index: a, new_index: b, new_len: l1 }, 0),
        _ => (DiffOp::Replace { old_index: a, old_len: l1, new_index: b, new_len: l2 }, 0),
    }
}

/// For any list of up to 3 ops and any lengths with 2*matches <= old+new (which
/// every valid script satisfies): ratio in 0..=1, ratio == 1.0 exactly when
/// 2*matches == old+new, and ratio equals the formula 2*L/(N+M) bit for bit.
#[cfg_attr(kani, kani::proof)]
#[cfg_attr(kani, kani::unwind(5))]
pub fn ratio_range_and_formula() {
    const MAXLEN: usize = 64;
    let n_ops: usize = crate::src::any();
    crate::src::assume(n_ops <= 3);
    let (o0, m0) = any_op(MAXLEN);
    let (o1, m1) = any_op(MAXLEN);
    let (o2, m2) = any_op(MAXLEN);
    let ops = [o0, o1, o2];
    let matches: usize = [m0, m1, m2][..n_ops].iter().sum();
    let old_len: usize = crate::src::any();
    let new_len: usize = crate::src::any();
    crate::src::assume(old_len <= 3 * MAXLEN && new_len <= 3 * MAXLEN);
    crate::src::assume(matches <= old_len && matches <= new_len);
    let r = get_diff_ratio(&ops[..n_ops], old_len, new_len);
    assert!(r >= 0.0 && r <= 1.0);
    if old_len + new_len == 0 {
        assert!(r == 1.0);
    } else {
        assert!((r == 1.0) == (2 * matches == old_len + new_len));
        assert!(r == 2.0 * matches as f32 / (old_len + new_len) as f32);
    }
    crate::cover!(r == 1.0 && old_len > 0);
    crate::cover!(r == 0.0 && old_len > 0);
    crate::cover!(r > 0.0 && r < 1.0);
}

/// One Equal op with a length up to 2^20 between two inputs of up to 2^20 items:
/// range and "1.0 exactly when equal" in the regime where usize -> f32 rounds.
#[cfg_attr(kani, kani::proof)]
#[cfg_attr(kani, kani::unwind(3))]
pub fn ratio_single_equal_large() {
    const MAX: usize = 1 << 20;
    let len: usize = crate::src::any();
    let old_len: usize = crate::src::any();
    let new_len: usize = crate::src::any();
    crate::src::assume(old_len <= MAX && new_len <= MAX && len <= old_len && len <= new_len);
    let ops = [DiffOp::Equal { old_index: 0, new_index: 0, len }];
    let r = get_diff_ratio(&ops, old_len, new_len);
    assert!(r >= 0.0 && r <= 1.0);
    if old_len + new_len > 0 && 2 * len == old_len + new_len {
        assert!(r == 1.0);
    }
    crate::cover!(r < 1.0 && r > 0.99);
}
