//! Source of harness inputs: `kani::any()` under Kani; natively, the byte
//! vectors recorded by Kani's concrete playback (so that a counterexample is
//! replayed against the real code by the *same* harness body).
#[cfg(kani)]
pub fn any<T: kani::Arbitrary>() -> T {
    kani::any()
}
#[cfg(kani)]
pub fn assume(c: bool) {
    kani::assume(c)
}

#[cfg(kani)]
#[macro_export]
macro_rules! cover {
    ($($t:tt)*) => { kani::cover!($($t)*) };
}
#[cfg(not(kani))]
#[macro_export]
macro_rules! cover {
    ($($t:tt)*) => {};
}

#[cfg(not(kani))]
pub use native::*;

#[cfg(not(kani))]
mod native {
    use std::cell::RefCell;
    use std::collections::VecDeque;

    thread_local! {
        static VALS: RefCell<VecDeque<Vec<u8>>> = RefCell::new(VecDeque::new());
    }
    pub fn load(vals: Vec<Vec<u8>>) {
        VALS.with(|v| *v.borrow_mut() = vals.into());
    }
    fn pop() -> Vec<u8> {
        VALS.with(|v| v.borrow_mut().pop_front()).unwrap_or_else(|| {
            println!("REPLAY result=inconclusive (recorded values exhausted)");
            std::process::exit(2)
        })
    }
    pub trait Native: Sized {
        fn take() -> Self;
    }
    impl Native for u8 {
        fn take() -> u8 {
            pop()[0]
        }
    }
    impl Native for bool {
        fn take() -> bool {
            pop()[0] & 1 == 1
        }
    }
    impl Native for usize {
        fn take() -> usize {
            let b = pop();
            let mut a = [0u8; 8];
            a[..b.len().min(8)].copy_from_slice(&b[..b.len().min(8)]);
            usize::from_le_bytes(a)
        }
    }
    impl<const N: usize> Native for [u8; N] {
        fn take() -> [u8; N] {
            let mut out = [0u8; N];
            let first = pop();
            if first.len() == N {
                out.copy_from_slice(&first);
            } else {
                out[0] = first[0];
                for k in 1..N {
                    out[k] = pop()[0];
                }
            }
            out
        }
    }
    pub fn any<T: Native>() -> T {
        T::take()
    }
    pub fn assume(c: bool) {
        if !c {
            println!("REPLAY result=infeasible (an assumption of the harness does not hold for the recorded values)");
            std::process::exit(3);
        }
    }
}
