//! Emits the table of harnesses (name -> fn) for the native replay binary.
use std::io::Write;
fn main() {
    println!("cargo:rustc-check-cfg=cfg(kani)");
    println!("cargo:rerun-if-changed=src");
    let out = std::path::PathBuf::from(std::env::var("OUT_DIR").unwrap()).join("table.rs");
    let mut rows = vec![];
    for m in ["ratio", "group", "expand", "tok", "ids"] {
        let p = format!("src/{}.rs", m);
        let s = match std::fs::read_to_string(&p) {
            Ok(s) => s,
            Err(_) => continue,
        };
        let lines: Vec<&str> = s.lines().collect();
        for (i, l) in lines.iter().enumerate() {
            let t = l.trim();
            // direct definitions
            if t.starts_with("pub fn ") && t.ends_with("() {") && i > 0 {
                let mut k = i;
                let mut is_proof = false;
                while k > 0 && lines[k - 1].trim().starts_with("#[") {
                    if lines[k - 1].contains("kani::proof") {
                        is_proof = true;
                    }
                    k -= 1;
                }
                let name = &t["pub fn ".len()..t.len() - "() {".len()];
                if is_proof && !name.starts_with('$') {
                    rows.push((m.to_string(), name.to_string()));
                }
            }
            // macro invocations: xyz_harness!(name, ...
            if let Some(pos) = t.find("_harness!(") {
                if !t.starts_with("macro_rules") && !t.starts_with("//") {
                    let rest = &t[pos + "_harness!(".len()..];
                    if let Some(c) = rest.find(',') {
                        rows.push((m.to_string(), rest[..c].trim().to_string()));
                    }
                }
            }
        }
    }
    let mut f = std::fs::File::create(out).unwrap();
    writeln!(f, "pub const TABLE: &[(&str, fn())] = &[").unwrap();
    for (m, n) in rows {
        writeln!(f, "    (\"{}::{}\", crate::{}::{} as fn()),", m, n, m, n).unwrap();
    }
    writeln!(f, "];").unwrap();
}
