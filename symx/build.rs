fn main() {
    // hand-declared FFI against the system libz3 (4.8.12); no bindgen, no crate.
    println!("cargo:rustc-link-lib=dylib=z3");
    println!("cargo:rustc-check-cfg=cfg(similar_verif)");
}
