#![recursion_limit = "256"]
mod common;
mod engine;
mod props;
mod sym;
mod symtxt;
mod z3;

use engine::{ExploreOpts, Leaf};
use props::{Prop, Tier};
use serde_json::{json, Value};
use std::collections::hash_map::DefaultHasher;
use std::hash::{Hash, Hasher};
use std::path::PathBuf;
use std::time::{Duration, Instant};

struct Args {
    id: String,
    tier: Tier,
    evidence: Option<PathBuf>,
    threads: usize,
    procs: usize,
    budget_s: u64,
    verif_dir: PathBuf,
    replay: Option<PathBuf>,
    seed: u64,
    list_shapes: bool,
    /// property id to print in VIOLATION / KNOWN-FINDING lines (a sub-check reports as its property)
    report_as: Option<String>,
}

fn parse_args() -> Args {
    let mut a = Args {
        id: String::new(),
        tier: match std::env::var("VERIF_TIER").as_deref() {
            Ok("thorough") => Tier::Thorough,
            _ => Tier::Quick,
        },
        evidence: None,
        threads: 1,
        procs: std::thread::available_parallelism().map(|n| n.get()).unwrap_or(8),
        budget_s: 0,
        verif_dir: PathBuf::from("/verif"),
        replay: None,
        seed: std::env::var("VERIF_SEED")
            .ok()
            .and_then(|s| s.parse().ok())
            .unwrap_or(0),
        list_shapes: false,
        report_as: None,
    };
    let mut it = std::env::args().skip(1);
    while let Some(x) = it.next() {
        match x.as_str() {
            "--tier" => {
                a.tier = match it.next().as_deref() {
                    Some("thorough") => Tier::Thorough,
                    _ => Tier::Quick,
                }
            }
            "--evidence" => a.evidence = it.next().map(PathBuf::from),
            "--threads" => a.threads = it.next().unwrap().parse().unwrap(),
            "--procs" => a.procs = it.next().unwrap().parse().unwrap(),
            "--budget" => a.budget_s = it.next().unwrap().parse().unwrap(),
            "--verif-dir" => a.verif_dir = PathBuf::from(it.next().unwrap()),
            "--replay" => a.replay = it.next().map(PathBuf::from),
            "--seed" => a.seed = it.next().unwrap().parse().unwrap(),
            "--list-shapes" => a.list_shapes = true,
            "--report-as" => a.report_as = it.next(),
            s if !s.starts_with("--") => a.id = s.to_string(),
            s => {
                eprintln!("unknown argument {}", s);
                std::process::exit(2)
            }
        }
    }
    a
}

fn known_findings(dir: &PathBuf) -> Vec<Value> {
    let p = dir.join("known_findings.json");
    match std::fs::read_to_string(&p) {
        Ok(s) => match serde_json::from_str::<Value>(&s) {
            Ok(v) => v["findings"].as_array().cloned().unwrap_or_default(),
            Err(e) => {
                eprintln!("cannot parse {}: {}", p.display(), e);
                std::process::exit(2)
            }
        },
        Err(_) => vec![],
    }
}

/// Deterministic permutation of the shape order from the seed.
fn permute<T>(v: &mut Vec<T>, seed: u64) {
    if seed == 0 {
        return;
    }
    let mut s = seed.wrapping_mul(0x9E3779B97F4A7C15) | 1;
    for i in (1..v.len()).rev() {
        s ^= s << 13;
        s ^= s >> 7;
        s ^= s << 17;
        let j = (s % (i as u64 + 1)) as usize;
        v.swap(i, j);
    }
}

fn replay_one<P: Prop>(p: &P, file: &PathBuf) -> i32 {
    let v: Value = serde_json::from_str(&std::fs::read_to_string(file).expect("read replay")).expect("parse replay");
    let shape = p.shape_from(&v["shape"]);
    let ints: Vec<i64> = v["ints"].as_array().unwrap().iter().map(|x| x.as_i64().unwrap()).collect();
    let bools: Vec<bool> = v["bools"].as_array().unwrap().iter().map(|x| x.as_bool().unwrap()).collect();
    let profile = if cfg!(debug_assertions) { "dev-semantics (overflow checks + debug assertions on)" } else { "release-semantics" };
    match engine::run_concrete(&ints, &bools, || p.run(&shape)) {
        Leaf::Ok(obs) => {
            println!("REPLAY property={} profile={} result=holds observation={}", p.id(), profile, obs);
            0
        }
        Leaf::Violation(vv) => {
            println!("REPLAY property={} profile={} result=VIOLATED {}", p.id(), profile, vv.msg);
            1
        }
        Leaf::LibPanic(m) => {
            println!("REPLAY property={} profile={} result=VIOLATED panic: {}", p.id(), profile, m);
            1
        }
        Leaf::Vacuous => {
            println!("REPLAY property={} profile={} result=infeasible (assumption violated by the recorded values)", p.id(), profile);
            2
        }
        Leaf::EngineError(m) => {
            println!("REPLAY property={} profile={} result=engine error {}", p.id(), profile, m);
            2
        }
    }
}

fn drive<P: Prop>(p: &P, a: &Args) -> i32 {
    if let Some(f) = &a.replay {
        return replay_one(p, f);
    }
    let t0 = Instant::now();
    let rid: String = a.report_as.clone().unwrap_or_else(|| p.id().to_string());
    let mut shapes = p.shapes(a.tier);
    if a.list_shapes {
        for s in &shapes {
            println!("{}", p.shape_json(s));
        }
        return 0;
    }
    permute(&mut shapes, a.seed);
    let meta = p.meta(a.tier);
    let budget = if a.budget_s > 0 {
        a.budget_s
    } else {
        match a.tier {
            Tier::Quick => 900,
            Tier::Thorough => 3 * 3600,
        }
    };
    // most expensive shapes first (ties in seed order)
    shapes.sort_by_key(|s| std::cmp::Reverse(p.cost(s)));
    let work_dir = a.verif_dir.join(format!("work/{}-{}", p.id(), std::process::id()));
    let res = engine::explore_mp(
        shapes.len(),
        |i| p.run(&shapes[i]),
        &|i, ints, bools, msg| p.attribute(&shapes[i], ints, bools, msg),
        ExploreOpts {
            xcheck_every: match a.tier { Tier::Quick => 2003, Tier::Thorough => 20011 },
            recheck_every: p.recheck_every(a.tier),
            seed: a.seed,
            threads: a.threads,
            split_depth: if a.threads > 1 { p.split_depth() } else { 0 },
            max_violations: 50,
            deadline: Some(t0 + Duration::from_secs(budget)),
        },
        a.procs,
        &work_dir,
    );
    let mut exit = 0;
    let mut inconclusive: Vec<String> = vec![];
    for e in &res.engine_errors {
        inconclusive.push(format!("engine error: {}", e));
    }
    if res.timed_out {
        inconclusive.push(format!("time budget of {} s exhausted before the exploration finished", budget));
    }

    // ---- violations: replay natively, attribute, report
    let kf = known_findings(&a.verif_dir);
    let replay_dir = a.verif_dir.join("replays");
    let _ = std::fs::create_dir_all(&replay_dir);
    let relplay_bin = a.verif_dir.join("target/symx/relplay/symx");
    let mut n_viol = 0usize;
    let n_known: u64 = res.stats.witness.iter().filter(|(k, _)| k.starts_with("attributed:")).map(|(_, v)| *v).sum();
    let mut validated = res.stats.concrete_replays;
    let mut reported_sites: std::collections::BTreeSet<String> = Default::default();
    let mut reported_msgs: std::collections::BTreeSet<String> = Default::default();
    let mut viol_samples: Vec<Value> = vec![];
    // deterministic order
    let mut viols = res.violations.clone();
    viols.sort_by(|x, y| (x.shape, &x.msg).cmp(&(y.shape, &y.msg)));
    for v in &viols {
        let shape = &shapes[v.shape];
        // 1. reproduce natively in this build (dev semantics)
        let dev = engine::run_concrete(&v.ints, &v.bools, || p.run(shape));
        validated += 1;
        let dev_repro = matches!(dev, Leaf::Violation(_) | Leaf::LibPanic(_));
        let dev_msg = match &dev {
            Leaf::Violation(x) => x.msg.clone(),
            Leaf::LibPanic(m) => format!("panic: {}", m),
            Leaf::Ok(_) => "holds".into(),
            Leaf::Vacuous => "infeasible".into(),
            Leaf::EngineError(m) => format!("engine error {}", m),
        };
        let desc = p.describe(shape, &v.ints, &v.bools);
        let mut h = DefaultHasher::new();
        format!("{}{:?}{:?}", p.shape_json(shape), v.ints, v.bools).hash(&mut h);
        let file = replay_dir.join(format!("{}-{:016x}.json", p.id(), h.finish()));
        let doc = json!({
            "property": rid, "sub_check": p.id(), "shape": p.shape_json(shape), "ints": v.ints, "bools": v.bools,
            "inputs": desc, "message": v.msg, "path_condition": v.path_condition,
            "notes": v.notes.iter().map(|(k, x)| json!({k.as_str(): x})).collect::<Vec<_>>(),
            "replay": format!("./check --replay {}", file.display()),
        });
        std::fs::write(&file, serde_json::to_string_pretty(&doc).unwrap()).expect("write replay");
        // 2. release-semantics replay binary, if built
        let mut rel_repro: Option<bool> = None;
        if relplay_bin.exists() {
            let out = std::process::Command::new(&relplay_bin)
                .arg(p.id())
                .arg("--replay")
                .arg(&file)
                .arg("--verif-dir")
                .arg(&a.verif_dir)
                .output();
            if let Ok(o) = out {
                rel_repro = Some(o.status.code() == Some(1));
            }
        }
        if !dev_repro && rel_repro != Some(true) {
            inconclusive.push(format!(
                "counterexample did not reproduce natively (symbolic: {}; dev replay: {}; release replay: {:?}) replay={}",
                v.msg, dev_msg, rel_repro, file.display()
            ));
            continue;
        }
        // 3. attribution to a listed known finding
        let site = v.site.clone();
        let known = site.as_ref().and_then(|s| {
            kf.iter().find(|f| {
                f["status"] == "known"
                    && f["site"].as_str() == Some(s.as_str())
                    && f["properties"].as_array().map_or(false, |ps| ps.iter().any(|x| x == rid.as_str()))
            })
        });
        if let Some(f) = known {
            let s = site.unwrap();
            if reported_sites.insert(s.clone()) {
                println!(
                    "KNOWN-FINDING: property={} {} (site {}; e.g. inputs {}; replay={})",
                    rid,
                    f["what"].as_str().unwrap_or(""),
                    s,
                    desc,
                    file.display()
                );
            }
            continue;
        }
        n_viol += 1;
        exit = 1;
        let key = v.msg.split(" (calls").next().unwrap_or("").chars().take(60).collect::<String>();
        if reported_msgs.insert(key) || n_viol <= 3 {
            println!("VIOLATION property={} replay={}", rid, file.display());
            println!("  what: {}", v.msg);
            println!("  inputs: {}", desc);
            println!("  reproduced natively: dev-semantics={} release-semantics={:?}", dev_repro, rel_repro);
        }
        if viol_samples.len() < 5 {
            viol_samples.push(doc);
        }
    }

    // ---- vacuity guard
    for w in &meta.required_witnesses {
        if res.stats.witness.get(*w).copied().unwrap_or(0) == 0 && exit == 0 && !res.timed_out {
            inconclusive.push(format!("witness class '{}' is empty: the check would be vacuous", w));
        }
    }
    if res.stats.leaves_ok + res.stats.leaves_violating == 0 {
        inconclusive.push("no path was explored".into());
    }
    if exit == 0 && !inconclusive.is_empty() {
        exit = 2;
    }
    for m in &inconclusive {
        println!("INCONCLUSIVE property={} {}", rid, m);
    }

    // ---- evidence
    let st = &res.stats;
    let wall = t0.elapsed().as_secs_f64();
    let mut samples = res.samples.clone();
    samples.extend(viol_samples.iter().cloned());
    if samples.is_empty() {
        samples.push(json!({"note": "no sample recorded"}));
    }
    let ev = json!({
        "property_id": p.id(),
        "tier": a.tier.name(),
        "seed": a.seed,
        "level": "model_checking",
        "wall_s": wall,
        "violations": n_viol,
        "assumptions": meta.assumptions,
        "coverage": {
            "states": st.leaves_ok + st.leaves_violating,
            "transitions": st.decisions,
            "traces_validated_against_impl": validated,
            "samples": samples,
            "exhaustive": !res.timed_out && res.engine_errors.is_empty(),
            "rule": meta.rule,
            "engine": "S (symbolic execution of the real generic code; every comparison decided by z3 through libz3)",
            "solver": z3::version(),
            "functions_executed_symbolically": meta.functions,
            "bounds": meta.bounds,
            "outside_bounds": meta.outside,
            "shapes": shapes.len(),
            "shapes_started": res.shapes_done,
            "runs": st.runs,
            "paths_ok": st.leaves_ok,
            "paths_violating": st.leaves_violating,
            "paths_vacuous": st.leaves_vacuous,
            "forks": st.forks,
            "max_fork_depth": st.max_depth,
            "data_claims_discharged_by_solver": st.must_hold,
            "entailment_queries": st.entail_queries,
            "element_comparisons_executed": st.cmps,
            "solver_check_sat_calls": st.solver_checks,
            "solver_sat": st.solver_sat,
            "solver_unsat": st.solver_unsat,
            "solver_seconds_cpu": (st.solver_ns as f64) / 1e9,
            "leaves_reexecuted_concretely": st.concrete_replays,
            "solver_queries_cross_checked_with_cvc5": st.witness.get("solver_queries_cross_checked_with_cvc5").copied().unwrap_or(0),
            "witness_classes": st.witness,
            "measured_maxima": st.maxima,
            "known_finding_paths": n_known,
            "inconclusive": inconclusive,
            "worker_processes": a.procs, "threads_per_process": a.threads,
        }
    });
    if let Some(path) = &a.evidence {
        if let Some(d) = path.parent() {
            let _ = std::fs::create_dir_all(d);
        }
        std::fs::write(path, serde_json::to_string_pretty(&ev).unwrap()).expect("write evidence");
    }
    println!(
        "SUMMARY property={} tier={} shapes={} paths={} decisions={} forks={} solver_calls={} solver_cpu_s={:.1} violations={} known_finding_paths={} wall_s={:.1} exit={}",
        p.id(), a.tier.name(), shapes.len(), st.leaves_ok + st.leaves_violating, st.decisions, st.forks,
        st.solver_checks, (st.solver_ns as f64) / 1e9, n_viol, n_known, wall, exit
    );
    exit
}

fn main() {
    engine::install_panic_hook();
    let mut a = parse_args();
    if a.id.is_empty() {
        if let Some(f) = &a.replay {
            let v: Value = serde_json::from_str(&std::fs::read_to_string(f).expect("read replay")).expect("parse replay");
            a.id = v["property"].as_str().unwrap_or("").to_string();
        }
    }
    let consts = std::fs::read_to_string(a.verif_dir.join("constants.json"))
        .ok()
        .and_then(|s| serde_json::from_str::<Value>(&s).ok())
        .unwrap_or(Value::Null);
    let _ = common::CONSTS.set(consts);
    let code = match a.id.as_str() {
        "C01" => drive(&props::c01::C01, &a),
        "C02" => drive(&props::captured::Captured(props::captured::Which::C02), &a),
        "C03" => drive(&props::captured::Captured(props::captured::Which::C03), &a),
        "C09" => drive(&props::captured::Captured(props::captured::Which::C09), &a),
        "C11" => drive(&props::captured::Captured(props::captured::Which::C11), &a),
        "C07" => drive(&props::deadline::C07, &a),
        "C08" => drive(&props::hookproto::C08, &a),
        "C10" => drive(&props::adapters::C10(false), &a),
        "C09b" => drive(&props::adapters::C10(true), &a),
        "C04" => drive(&props::text::Text(props::text::Which::C04), &a),
        "C05" => drive(&props::udiff::C05, &a),
        "C13" => drive(&props::text::Text(props::text::Which::C13), &a),
        "C14" => drive(&props::text::Text(props::text::Which::C14), &a),
        "C16" => drive(&props::inline::C16, &a),
        "C17" => drive(&props::text::Text(props::text::Which::C17), &a),
        "C15" => drive(&props::misc::C15, &a),
        "C18" => drive(&props::closematch::C18, &a),
        "C19" => drive(&props::misc::C19, &a),
        "C20" => drive(&props::misc::C20, &a),
        "C12s" => drive(&props::text::Text(props::text::Which::C12s), &a),
        "C14b" => drive(&props::text::TextBig(0), &a),
        "C04b" => drive(&props::text::TextBig(1), &a),
        "C17b" => drive(&props::text::TextBig(2), &a),
        "C02b" => drive(&props::text::TextBig(3), &a),
        "C14a" => drive(&props::misc::IdDistinct, &a),
        other => {
            eprintln!("unknown property {}", other);
            2
        }
    };
    std::process::exit(code);
}
