//! Engine S: dynamic symbolic execution by re-execution, every decision by z3.
//!
//! A *run* executes a closure (which calls the real `similar` code on symbolic
//! items).  Each data-dependent comparison calls `decide(atom)`, which asks z3
//! whether `PC ∧ atom` and `PC ∧ ¬atom` are satisfiable.  If both are, the run
//! forks: it continues with `atom`, the alternative is remembered.  After the
//! run ends (a *leaf*), the deepest pending alternative is flipped and the
//! closure is executed again from the start with all earlier decisions
//! pre-asserted into the solver.
use crate::z3::{Ast, Z3, L_FALSE, L_TRUE};
use std::cell::RefCell;
use std::collections::{BTreeMap, HashMap, VecDeque};
use std::panic::{catch_unwind, AssertUnwindSafe};
use std::sync::atomic::{AtomicBool, AtomicUsize, Ordering};
use std::sync::{Arc, Mutex};
use std::time::Instant;

#[derive(Clone, Copy, PartialEq, Eq, Hash, Debug, PartialOrd, Ord)]
pub enum Atom {
    /// int const a == int const b (normalised a < b)
    Eq(u32, u32),
    /// int const a < int const b
    Lt(u32, u32),
    /// int const == literal
    EqC(u32, i64),
    /// int const < literal
    LtC(u32, i64),
    /// bool const
    B(u32),
}

impl Atom {
    pub fn eq(a: u32, b: u32) -> Atom {
        if a <= b {
            Atom::Eq(a, b)
        } else {
            Atom::Eq(b, a)
        }
    }
}

#[derive(Clone, Debug)]
pub enum F {
    True,
    A(Atom),
    Not(Box<F>),
    And(Vec<F>),
    Or(Vec<F>),
    Imp(Box<F>, Box<F>),
    Distinct(Vec<u32>),
}

impl F {
    pub fn eq(a: u32, b: u32) -> F {
        if a == b {
            F::True
        } else {
            F::A(Atom::eq(a, b))
        }
    }
    pub fn ne(a: u32, b: u32) -> F {
        F::Not(Box::new(F::eq(a, b)))
    }
    pub fn not(f: F) -> F {
        F::Not(Box::new(f))
    }
    pub fn imp(a: F, b: F) -> F {
        F::Imp(Box::new(a), Box::new(b))
    }
}

#[derive(Clone, Debug)]
pub struct StackEntry {
    pub atom: Atom,
    pub val: bool,
    pub alt_pending: bool,
}

/// Panic payloads used to unwind out of a run.
#[derive(Debug, Clone)]
pub struct Violation {
    pub msg: String,
    /// model captured at the point of failure (ints, bools) if any
    pub model: Option<(Vec<i64>, Vec<bool>)>,
}
#[derive(Debug)]
pub struct Infeasible;
#[derive(Debug)]
pub struct EngineError(pub String);

#[derive(Default, Clone, Debug)]
pub struct Stats {
    pub runs: u64,
    pub leaves_ok: u64,
    pub leaves_vacuous: u64,
    pub leaves_violating: u64,
    pub decisions: u64,
    pub forks: u64,
    pub must_hold: u64,
    pub entail_queries: u64,
    pub cmps: u64,
    pub solver_checks: u64,
    pub solver_sat: u64,
    pub solver_unsat: u64,
    pub solver_ns: u128,
    pub concrete_replays: u64,
    pub witness: BTreeMap<String, u64>,
    pub maxima: BTreeMap<String, u64>,
    pub max_depth: usize,
}

impl Stats {
    pub fn merge(&mut self, o: &Stats) {
        self.runs += o.runs;
        self.leaves_ok += o.leaves_ok;
        self.leaves_vacuous += o.leaves_vacuous;
        self.leaves_violating += o.leaves_violating;
        self.decisions += o.decisions;
        self.forks += o.forks;
        self.must_hold += o.must_hold;
        self.entail_queries += o.entail_queries;
        self.cmps += o.cmps;
        self.solver_checks += o.solver_checks;
        self.solver_sat += o.solver_sat;
        self.solver_unsat += o.solver_unsat;
        self.solver_ns += o.solver_ns;
        self.concrete_replays += o.concrete_replays;
        for (k, v) in &o.witness {
            *self.witness.entry(k.clone()).or_insert(0) += v;
        }
        for (k, v) in &o.maxima {
            let e = self.maxima.entry(k.clone()).or_insert(0);
            *e = (*e).max(*v);
        }
        self.max_depth = self.max_depth.max(o.max_depth);
    }
}

#[derive(Clone, Copy, PartialEq, Eq, Debug)]
pub enum Mode {
    Symbolic,
    /// pinned to a model in the middle of a symbolic run
    Pinned,
    /// replay run on given values (no solver)
    Concrete,
}

pub struct Engine {
    z3: Option<Z3>,
    pub mode: Mode,
    values: Vec<i64>,
    bvalues: Vec<bool>,
    n_ints: u32,
    n_bools: u32,
    int_asts: Vec<Ast>,
    bool_asts: Vec<Ast>,
    stack: Vec<StackEntry>,
    base_len: usize,
    cache: HashMap<Atom, bool>,
    pub stats: Stats,
    /// per-run comparison counter (Sym::eq / Sym::cmp calls)
    pub run_cmps: u64,
    /// comparisons at the time of the mark (see `mark_cmps`)
    pub cmp_mark: Option<u64>,
    share: Option<Arc<Shared>>,
    cur_shape: usize,
    split_depth: usize,
    samples: Vec<serde_json::Value>,
    run_notes: Vec<(String, serde_json::Value)>,
    /// optional per-constant hash classes (must be lawful: see `set_hash_class`)
    hash_classes: HashMap<u32, u64>,
    /// formulas asserted in the current run (for the second-solver cross-check)
    asserted: Vec<Ast>,
    xcheck_every: u64,
    xcheck_ctr: u64,
    xcheck_buf: String,
    xcheck_n: u64,
    /// keep the constant hash of symbolic items also in concrete re-executions (C20)
    constant_hash_in_replay: bool,
    /// members of `distinct` assumptions of this run: constant -> index of the assumption
    distinct_of: HashMap<u32, u32>,
    n_distinct: u32,
}

thread_local! {
    static ENG: RefCell<Option<Engine>> = const { RefCell::new(None) };
    static LAST_PANIC: RefCell<Option<String>> = const { RefCell::new(None) };
}

fn with<R>(f: impl FnOnce(&mut Engine) -> R) -> R {
    ENG.with(|e| {
        let mut b = e.borrow_mut();
        let eng = b.as_mut().expect("engine not installed on this thread");
        f(eng)
    })
}

pub fn install_panic_hook() {
    std::panic::set_hook(Box::new(|info| {
        let loc = info
            .location()
            .map(|l| format!("{}:{}", l.file(), l.line()))
            .unwrap_or_default();
        let msg = if let Some(s) = info.payload().downcast_ref::<&str>() {
            s.to_string()
        } else if let Some(s) = info.payload().downcast_ref::<String>() {
            s.clone()
        } else {
            String::new()
        };
        LAST_PANIC.with(|p| *p.borrow_mut() = Some(format!("{} at {}", msg, loc)));
    }));
}

impl Engine {
    fn new(symbolic: bool) -> Engine {
        Engine {
            z3: if symbolic { Some(Z3::new()) } else { None },
            mode: if symbolic {
                Mode::Symbolic
            } else {
                Mode::Concrete
            },
            values: vec![],
            bvalues: vec![],
            n_ints: 0,
            n_bools: 0,
            int_asts: vec![],
            bool_asts: vec![],
            stack: vec![],
            base_len: 0,
            cache: HashMap::new(),
            stats: Stats::default(),
            run_cmps: 0,
            cmp_mark: None,
            share: None,
            cur_shape: 0,
            split_depth: 0,
            samples: vec![],
            run_notes: vec![],
            hash_classes: HashMap::new(),
            asserted: vec![],
            xcheck_every: 0,
            xcheck_ctr: 0,
            xcheck_buf: String::new(),
            xcheck_n: 0,
            constant_hash_in_replay: false,
            distinct_of: HashMap::new(),
            n_distinct: 0,
        }
    }

    fn int_ast(&mut self, id: u32) -> Ast {
        let z = self.z3.as_ref().unwrap();
        while self.int_asts.len() <= id as usize {
            let k = self.int_asts.len() as u32;
            self.int_asts.push(z.int_const(k));
        }
        self.int_asts[id as usize]
    }
    fn bool_ast(&mut self, id: u32) -> Ast {
        let z = self.z3.as_ref().unwrap();
        while self.bool_asts.len() <= id as usize {
            let k = self.bool_asts.len() as u32;
            self.bool_asts.push(z.bool_const(k));
        }
        self.bool_asts[id as usize]
    }

    fn atom_ast(&mut self, a: Atom) -> Ast {
        match a {
            Atom::Eq(x, y) => {
                let (ax, ay) = (self.int_ast(x), self.int_ast(y));
                self.z3.as_ref().unwrap().eq(ax, ay)
            }
            Atom::Lt(x, y) => {
                let (ax, ay) = (self.int_ast(x), self.int_ast(y));
                self.z3.as_ref().unwrap().lt(ax, ay)
            }
            Atom::EqC(x, c) => {
                let ax = self.int_ast(x);
                let z = self.z3.as_ref().unwrap();
                z.eq(ax, z.int(c))
            }
            Atom::LtC(x, c) => {
                let ax = self.int_ast(x);
                let z = self.z3.as_ref().unwrap();
                z.lt(ax, z.int(c))
            }
            Atom::B(b) => self.bool_ast(b),
        }
    }

    fn f_ast(&mut self, f: &F) -> Ast {
        match f {
            F::True => {
                let z = self.z3.as_ref().unwrap();
                z.and(&[])
            }
            F::A(a) => self.atom_ast(*a),
            F::Not(g) => {
                let a = self.f_ast(g);
                self.z3.as_ref().unwrap().not(a)
            }
            F::And(gs) => {
                let v: Vec<Ast> = gs.iter().map(|g| self.f_ast(g)).collect();
                self.z3.as_ref().unwrap().and(&v)
            }
            F::Or(gs) => {
                let v: Vec<Ast> = gs.iter().map(|g| self.f_ast(g)).collect();
                self.z3.as_ref().unwrap().or(&v)
            }
            F::Imp(a, b) => {
                let (x, y) = (self.f_ast(a), self.f_ast(b));
                self.z3.as_ref().unwrap().implies(x, y)
            }
            F::Distinct(ids) => {
                let v: Vec<Ast> = ids.iter().map(|i| self.int_ast(*i)).collect();
                self.z3.as_ref().unwrap().distinct(&v)
            }
        }
    }

    fn eval_atom(&self, a: Atom) -> bool {
        let v = |i: u32| -> i64 {
            *self
                .values
                .get(i as usize)
                .unwrap_or_else(|| std::panic::panic_any(EngineError(format!("no value for int const {}", i))))
        };
        match a {
            Atom::Eq(x, y) => v(x) == v(y),
            Atom::Lt(x, y) => v(x) < v(y),
            Atom::EqC(x, c) => v(x) == c,
            Atom::LtC(x, c) => v(x) < c,
            Atom::B(b) => self.bvalues.get(b as usize).copied().unwrap_or(false),
        }
    }

    fn eval_f(&self, f: &F) -> bool {
        match f {
            F::True => true,
            F::A(a) => self.eval_atom(*a),
            F::Not(g) => !self.eval_f(g),
            F::And(gs) => gs.iter().all(|g| self.eval_f(g)),
            F::Or(gs) => gs.iter().any(|g| self.eval_f(g)),
            F::Imp(a, b) => !self.eval_f(a) || self.eval_f(b),
            F::Distinct(ids) => {
                for i in 0..ids.len() {
                    for j in i + 1..ids.len() {
                        if self.values[ids[i] as usize] == self.values[ids[j] as usize] {
                            return false;
                        }
                    }
                }
                true
            }
        }
    }

    fn solver_check_with(&mut self, lit: Ast) -> i32 {
        let r = self.z3.as_mut().unwrap().check_with(lit);
        if r != L_TRUE && r != L_FALSE {
            std::panic::panic_any(EngineError(format!(
                "solver answered unknown/error (code {}, z3 error {})",
                r,
                crate::z3::take_error()
            )));
        }
        let e = crate::z3::take_error();
        if e != 0 {
            std::panic::panic_any(EngineError(format!("z3 error code {}", e)));
        }
        if self.xcheck_every > 0 {
            self.xcheck_ctr += 1;
            if self.xcheck_ctr % self.xcheck_every == 0 && self.xcheck_n < 4000 {
                // record this query as a self-contained SMT-LIB block for cvc5
                self.xcheck_n += 1;
                let z = self.z3.as_ref().unwrap();
                let mut b = String::from("(push 1)\n");
                for i in 0..self.n_ints.max(self.int_asts.len() as u32) {
                    b.push_str(&format!("(declare-const k!{} Int)\n", i));
                }
                for i in 0..self.n_bools.max(self.bool_asts.len() as u32) {
                    b.push_str(&format!("(declare-const k!{} Bool)\n", i + (1 << 24)));
                }
                for a in &self.asserted {
                    b.push_str(&format!("(assert {})\n", z.to_string(*a)));
                }
                b.push_str(&format!("(assert {})\n(check-sat)\n; expect {}\n(pop 1)\n", z.to_string(lit), if r == L_TRUE { "sat" } else { "unsat" }));
                self.xcheck_buf.push_str(&b);
            }
        }
        r
    }

    fn decide(&mut self, a: Atom) -> bool {
        self.stats.decisions += 1;
        if self.mode != Mode::Symbolic {
            return self.eval_atom(a);
        }
        if let Some(v) = self.cache.get(&a) {
            return *v;
        }
        if let Atom::Eq(x, y) = a {
            if x != y {
                if let (Some(p), Some(q)) = (self.distinct_of.get(&x), self.distinct_of.get(&y)) {
                    if p == q {
                        // both are arguments of one asserted (distinct ...): unequal by that assertion
                        return false;
                    }
                }
            }
        }
        let lit = self.atom_ast(a);
        let r1 = self.solver_check_with(lit);
        if r1 == L_FALSE {
            self.cache.insert(a, false);
            return false;
        }
        let nlit = self.z3.as_ref().unwrap().not(lit);
        let r2 = self.solver_check_with(nlit);
        if r2 == L_FALSE {
            self.cache.insert(a, true);
            return true;
        }
        // both satisfiable: fork.  Continue with `true`.
        self.stats.forks += 1;
        let mut pending = true;
        if self.stack.len() - self.base_len < self.split_depth {
            if let Some(sh) = &self.share {
                if sh.hungry() {
                    let mut prefix: Vec<StackEntry> = self
                        .stack
                        .iter()
                        .map(|e| StackEntry {
                            atom: e.atom,
                            val: e.val,
                            alt_pending: false,
                        })
                        .collect();
                    prefix.push(StackEntry {
                        atom: a,
                        val: false,
                        alt_pending: false,
                    });
                    sh.push(WorkItem {
                        shape: self.cur_shape,
                        prefix,
                    });
                    pending = false;
                }
            }
        }
        self.stack.push(StackEntry {
            atom: a,
            val: true,
            alt_pending: pending,
        });
        self.stats.max_depth = self.stats.max_depth.max(self.stack.len());
        self.z3.as_mut().unwrap().assert(lit);
        self.asserted.push(lit);
        self.cache.insert(a, true);
        true
    }

    fn current_model(&mut self) -> Option<(Vec<i64>, Vec<bool>)> {
        let ints: Vec<Ast> = (0..self.n_ints).map(|i| self.int_ast(i)).collect();
        let bools: Vec<Ast> = (0..self.n_bools).map(|i| self.bool_ast(i)).collect();
        let z = self.z3.as_mut().unwrap();
        let iv = z.model_ints(&ints)?;
        let bv = z.model_bools(&bools)?;
        Some((iv, bv))
    }
}

// ---------------------------------------------------------------- public API (thread-local)

/// Allocates the next symbolic integer constant of this run.
pub fn fresh_int() -> u32 {
    with(|e| {
        let id = e.n_ints;
        e.n_ints += 1;
        if e.mode == Mode::Pinned {
            std::panic::panic_any(EngineError("fresh_int after pin_model".into()));
        }
        id
    })
}
pub fn fresh_bool() -> u32 {
    with(|e| {
        let id = e.n_bools;
        e.n_bools += 1;
        if e.mode == Mode::Pinned {
            std::panic::panic_any(EngineError("fresh_bool after pin_model".into()));
        }
        id
    })
}

pub fn decide(a: Atom) -> bool {
    with(|e| e.decide(a))
}

pub fn note_cmp() {
    with(|e| {
        e.run_cmps += 1;
        e.stats.cmps += 1;
    })
}
pub fn run_cmps() -> u64 {
    with(|e| e.run_cmps)
}
/// Remember the comparison count at the first call (used for "work after expiry").
pub fn mark_cmps_once() {
    with(|e| {
        if e.cmp_mark.is_none() {
            e.cmp_mark = Some(e.run_cmps)
        }
    })
}
pub fn cmp_mark() -> Option<u64> {
    with(|e| e.cmp_mark)
}

pub fn is_symbolic() -> bool {
    with(|e| e.mode == Mode::Symbolic)
}
pub fn is_concrete_replay() -> bool {
    with(|e| e.mode == Mode::Concrete)
}

/// Adds an assumption to the path condition (before the code it constrains).
/// If the path condition becomes unsatisfiable the run is abandoned as vacuous.
pub fn assume(f: &F) {
    if let F::Distinct(ids) = f {
        if ids.len() < 2 {
            return; // trivially true (and cvc5 rejects a unary distinct)
        }
    }
    with(|e| {
        if e.mode != Mode::Symbolic {
            if !e.eval_f(f) {
                std::panic::panic_any(Infeasible);
            }
            return;
        }
        let a = e.f_ast(f);
        e.z3.as_mut().unwrap().assert(a);
        e.asserted.push(a);
        if let F::Distinct(ids) = f {
            // remembered so that an equality between two members of the same asserted
            // `distinct` is read off the assertion instead of being sent to the solver
            let k = e.n_distinct;
            e.n_distinct += 1;
            for id in ids {
                e.distinct_of.entry(*id).or_insert(k);
            }
        }
        let r = e.z3.as_mut().unwrap().check();
        if r == L_FALSE {
            std::panic::panic_any(Infeasible);
        } else if r != L_TRUE {
            std::panic::panic_any(EngineError("unknown on assume".into()));
        }
    })
}

/// Adds an assumption that is known to keep the path condition satisfiable
/// (e.g. the latch `b_k => b_{k+1}` over a fresh constant): no feasibility query.
pub fn assume_nocheck(f: &F) {
    with(|e| {
        if e.mode != Mode::Symbolic {
            return;
        }
        let a = e.f_ast(f);
        e.z3.as_mut().unwrap().assert(a);
        e.asserted.push(a);
    })
}

/// `PC ⊨ f` ?  (one solver query, no fork)
pub fn entails(f: &F) -> bool {
    with(|e| {
        e.stats.entail_queries += 1;
        if e.mode != Mode::Symbolic {
            return e.eval_f(f);
        }
        let a = e.f_ast(f);
        let na = e.z3.as_ref().unwrap().not(a);
        e.solver_check_with(na) == L_FALSE
    })
}

/// `PC ∧ f` satisfiable?  (one solver query, no fork)
pub fn possible(f: &F) -> bool {
    with(|e| {
        e.stats.entail_queries += 1;
        if e.mode != Mode::Symbolic {
            return e.eval_f(f);
        }
        let a = e.f_ast(f);
        e.solver_check_with(a) == L_TRUE
    })
}

/// Data claim: `PC ∧ ¬f` must be unsat.  Otherwise a violation carrying the model.
pub fn must_hold(f: &F, what: &str) {
    let viol = with(|e| {
        e.stats.must_hold += 1;
        if e.mode != Mode::Symbolic {
            if e.eval_f(f) {
                return None;
            }
            return Some(Violation {
                msg: format!("data claim fails: {}", what),
                model: None,
            });
        }
        if let F::A(Atom::Eq(x, y)) = f {
            if x == y {
                return None; // the same constant
            }
        }
        let a = e.f_ast(f);
        let na = e.z3.as_ref().unwrap().not(a);
        if e.solver_check_with(na) == L_FALSE {
            return None;
        }
        let model = e.current_model();
        Some(Violation {
            msg: format!("data claim fails: {}", what),
            model,
        })
    });
    if let Some(v) = viol {
        std::panic::panic_any(v);
    }
}

/// Structural claim failed.
pub fn fail(msg: String) -> ! {
    std::panic::panic_any(Violation { msg, model: None })
}

#[macro_export]
macro_rules! claim {
    ($c:expr, $($arg:tt)*) => {
        if !($c) { $crate::engine::fail(format!($($arg)*)); }
    };
}

/// Count a leaf into a named witness class (vacuity guard / coverage classes).
pub fn witness(name: &str) {
    with(|e| {
        *e.stats.witness.entry(name.to_string()).or_insert(0) += 1;
    })
}

/// Track the maximum of a measured quantity over all paths (reported in evidence).
pub fn stat_max(name: &str, v: u64) {
    with(|e| {
        let x = e.stats.maxima.entry(name.to_string()).or_insert(0);
        *x = (*x).max(v);
    })
}

/// Offer a sample of what this path looked like (first few are kept).
pub fn offer_sample(f: impl FnOnce() -> serde_json::Value) {
    let want = with(|e| e.mode != Mode::Concrete && e.samples.len() < 2);
    if want {
        let v = f();
        with(|e| e.samples.push(v));
    }
}

/// Attach a note to the current run (included in a replay file if the run fails).
pub fn note(k: &str, v: serde_json::Value) {
    with(|e| e.run_notes.push((k.to_string(), v)))
}

/// Fix every symbolic constant to its value in one model of the current path
/// condition; the rest of the run evaluates concretely (no more forks).
pub fn pin_model() {
    with(|e| {
        if e.mode != Mode::Symbolic {
            return;
        }
        let r = e.z3.as_mut().unwrap().check();
        if r != L_TRUE {
            std::panic::panic_any(EngineError("PC not sat at pin_model".into()));
        }
        let (iv, bv) = e
            .current_model()
            .unwrap_or_else(|| std::panic::panic_any(EngineError("no model".into())));
        e.values = iv;
        e.bvalues = bv;
        e.mode = Mode::Pinned;
    })
}

/// Value of an int const (only in pinned / concrete mode).
pub fn value_of(id: u32) -> i64 {
    with(|e| {
        if e.mode == Mode::Symbolic {
            std::panic::panic_any(EngineError("value_of in symbolic mode".into()));
        }
        e.values[id as usize]
    })
}
pub fn concrete_value_for_hash(id: u32) -> Option<i64> {
    with(|e| {
        if e.mode == Mode::Concrete && !e.constant_hash_in_replay {
            e.values.get(id as usize).copied()
        } else {
            e.hash_classes.get(&id).map(|c| *c as i64)
        }
    })
}

/// Concrete re-executions of this run keep the constant hash of symbolic items
/// (a lawful Hash that is coarser than Eq), instead of hashing the values.
pub fn keep_constant_hash_in_replay() {
    with(|e| e.constant_hash_in_replay = true)
}

/// Give a symbolic constant a hash class for this run.  The caller must keep
/// Hash lawful: two constants may get different classes only if the path
/// condition (by an explicit assumption) makes them unequal.
pub fn set_hash_class(id: u32, class: u64) {
    with(|e| {
        e.hash_classes.insert(id, class);
    })
}

/// Human-readable path condition (decision stack) of the current run.
pub fn path_condition() -> Vec<String> {
    with(|e| {
        e.stack
            .iter()
            .map(|s| format!("{}{:?}", if s.val { "" } else { "!" }, s.atom))
            .collect()
    })
}

// ---------------------------------------------------------------- exploration

pub struct WorkItem {
    pub shape: usize,
    pub prefix: Vec<StackEntry>,
}

pub struct Shared {
    queue: Mutex<VecDeque<WorkItem>>,
    active: AtomicUsize,
    nthreads: usize,
    stop: AtomicBool,
}
impl Shared {
    fn hungry(&self) -> bool {
        self.queue.lock().unwrap().len() < self.nthreads
    }
    fn push(&self, w: WorkItem) {
        self.queue.lock().unwrap().push_back(w);
    }
}

#[derive(Clone, Debug)]
pub struct FoundViolation {
    /// call site this violation was attributed to by the property's triage (known-finding candidates)
    pub site: Option<String>,
    pub shape: usize,
    pub msg: String,
    pub ints: Vec<i64>,
    pub bools: Vec<bool>,
    pub path_condition: Vec<String>,
    pub notes: Vec<(String, serde_json::Value)>,
}

pub struct ExploreOpts {
    /// record every k-th solver query for the cvc5 cross-check (0 = off)
    pub xcheck_every: u64,
    /// re-execute every k-th passing leaf concretely (0 = never)
    pub recheck_every: u64,
    pub seed: u64,
    pub threads: usize,
    pub split_depth: usize,
    pub max_violations: usize,
    pub deadline: Option<Instant>,
}

pub struct ExploreResult {
    /// recorded queries (SMT-LIB text) for the second solver
    pub xcheck: String,
    pub stats: Stats,
    pub violations: Vec<FoundViolation>,
    pub engine_errors: Vec<String>,
    pub timed_out: bool,
    pub samples: Vec<serde_json::Value>,
    pub shapes_done: usize,
}

pub enum Leaf {
    Ok(String),
    Vacuous,
    Violation(Violation),
    LibPanic(String),
    EngineError(String),
}

fn classify(r: Result<String, Box<dyn std::any::Any + Send>>) -> Leaf {
    match r {
        Ok(s) => Leaf::Ok(s),
        Err(p) => {
            if let Some(v) = p.downcast_ref::<Violation>() {
                Leaf::Violation(v.clone())
            } else if p.downcast_ref::<Infeasible>().is_some() {
                Leaf::Vacuous
            } else if let Some(e) = p.downcast_ref::<EngineError>() {
                Leaf::EngineError(e.0.clone())
            } else {
                let msg = LAST_PANIC
                    .with(|p| p.borrow_mut().take())
                    .unwrap_or_else(|| "panic".into());
                Leaf::LibPanic(msg)
            }
        }
    }
}

/// Explore every path of `run(shape_index)` for every shape, on `threads` workers.
pub type Triage<'a> = &'a (dyn Fn(usize, &[i64], &[bool], &str) -> Option<String> + Sync);

pub fn explore<R>(
    next_shape: &(dyn Fn() -> Option<usize> + Sync),
    ext_stop: &AtomicBool,
    run: R,
    triage: Triage,
    opts: &ExploreOpts,
) -> ExploreResult
where
    R: Fn(usize) -> String + Sync,
{
    let shared = Arc::new(Shared {
        queue: Mutex::new(VecDeque::new()),
        active: AtomicUsize::new(0),
        nthreads: opts.threads,
        stop: AtomicBool::new(false),
    });
    let violations: Mutex<Vec<FoundViolation>> = Mutex::new(vec![]);
    let errors: Mutex<Vec<String>> = Mutex::new(vec![]);
    let total: Mutex<Stats> = Mutex::new(Stats::default());
    let samples: Mutex<Vec<serde_json::Value>> = Mutex::new(vec![]);
    let xcheck: Mutex<String> = Mutex::new(String::new());
    let timed_out = AtomicBool::new(false);
    let shapes_started = AtomicUsize::new(0);

    std::thread::scope(|sc| {
        for _ in 0..opts.threads {
            let shared = shared.clone();
            let run = &run;
            let violations = &violations;
            let errors = &errors;
            let total = &total;
            let samples = &samples;
            let xcheck = &xcheck;
            let timed_out = &timed_out;
            let shapes_started = &shapes_started;
            std::thread::Builder::new()
                .stack_size(64 << 20)
                .spawn_scoped(sc, move || {
                    let mut eng = Engine::new(true);
                    eng.share = Some(shared.clone());
                    eng.split_depth = opts.split_depth;
                    eng.xcheck_every = opts.xcheck_every;
                    ENG.with(|e| *e.borrow_mut() = Some(eng));
                    loop {
                        if shared.stop.load(Ordering::SeqCst) || ext_stop.load(Ordering::SeqCst) {
                            break;
                        }
                        let item = {
                            let mut q = shared.queue.lock().unwrap();
                            let mut it = q.pop_front();
                            if it.is_none() {
                                it = next_shape().map(|s| WorkItem { shape: s, prefix: vec![] });
                            }
                            if it.is_some() {
                                shared.active.fetch_add(1, Ordering::SeqCst);
                            }
                            it
                        };
                        let item = match item {
                            Some(i) => i,
                            None => {
                                if shared.active.load(Ordering::SeqCst) == 0 {
                                    break;
                                }
                                std::thread::sleep(std::time::Duration::from_micros(200));
                                continue;
                            }
                        };
                        if item.prefix.is_empty() {
                            shapes_started.fetch_add(1, Ordering::SeqCst);
                        }
                        // explore the subtree under item.prefix
                        with(|e| {
                            e.base_len = item.prefix.len();
                            e.stack = item.prefix;
                            e.cur_shape = item.shape;
                        });
                        loop {
                            if shared.stop.load(Ordering::SeqCst) || ext_stop.load(Ordering::SeqCst) {
                                break;
                            }
                            if let Some(dl) = opts.deadline {
                                if Instant::now() > dl {
                                    timed_out.store(true, Ordering::SeqCst);
                                    shared.stop.store(true, Ordering::SeqCst);
                                    break;
                                }
                            }
                            // begin run
                            with(|e| {
                                e.mode = Mode::Symbolic;
                                e.n_ints = 0;
                                e.n_bools = 0;
                                e.run_cmps = 0;
                                e.cmp_mark = None;
                                e.run_notes.clear();
                                e.asserted.clear();
                                e.distinct_of.clear();
                                e.n_distinct = 0;
                                e.hash_classes.clear();
                                e.cache.clear();
                                e.z3.as_mut().unwrap().push();
                                let st = e.stack.clone();
                                for s in &st {
                                    let a = e.atom_ast(s.atom);
                                    let a = if s.val { a } else { e.z3.as_ref().unwrap().not(a) };
                                    e.z3.as_mut().unwrap().assert(a);
                                    e.asserted.push(a);
                                    e.cache.insert(s.atom, s.val);
                                }
                                e.stats.runs += 1;
                            });
                            let shape = item.shape;
                            let r = catch_unwind(AssertUnwindSafe(|| run(shape)));
                            let leaf = classify(r);
                            // optional: re-execute this leaf natively on one model of its
                            // path condition and compare the observation
                            let leaf = match leaf {
                                Leaf::Ok(obs) => {
                                    let n = with(|e| e.stats.leaves_ok);
                                    if opts.recheck_every > 0
                                        && (n + opts.seed) % opts.recheck_every == 0
                                    {
                                        let model = with(|e| {
                                            if e.mode == Mode::Pinned {
                                                Some((e.values.clone(), e.bvalues.clone()))
                                            } else {
                                                let r = e.z3.as_mut().unwrap().check();
                                                if r == L_TRUE {
                                                    e.current_model()
                                                } else {
                                                    crate::z3::LAST_MODEL_PROBLEM.with(|p| *p.borrow_mut() = Some(format!("check-sat of the path condition at the leaf answered {} (z3 error {})", r, crate::z3::take_error())));
                                                    None
                                                }
                                            }
                                        });
                                        match model {
                                            None => {
                                                // the sanity re-execution needs a model whose values fit i64;
                                                // without one this leaf is simply not re-executed (counted)
                                                let why = crate::z3::LAST_MODEL_PROBLEM.with(|p| p.borrow_mut().take()).unwrap_or_else(|| "no model".into());
                                                with(|e| {
                                                    *e.stats.witness.entry("leaf_reexecutions_skipped_for_lack_of_an_i64_model".into()).or_insert(0) += 1;
                                                    if e.samples.len() < 3 {
                                                        e.samples.push(serde_json::json!({"note": "leaf re-execution skipped", "why": why}));
                                                    }
                                                });
                                                Leaf::Ok(obs)
                                            }
                                            Some((iv, bv)) => {
                                                with(|e| e.stats.concrete_replays += 1);
                                                match run_concrete(&iv, &bv, || run(shape)) {
                                                    Leaf::Ok(obs2) if obs2 == obs => Leaf::Ok(obs),
                                                    Leaf::Ok(obs2) => Leaf::Violation(Violation {
                                                        msg: format!(
                                                            "concrete re-execution of the leaf differs from the symbolic path: symbolic={} concrete={}",
                                                            obs, obs2
                                                        ),
                                                        model: Some((iv, bv)),
                                                    }),
                                                    Leaf::Vacuous => Leaf::EngineError(
                                                        "leaf model infeasible on concrete re-execution".into(),
                                                    ),
                                                    Leaf::Violation(v) => Leaf::Violation(Violation {
                                                        msg: format!("(only on concrete re-execution) {}", v.msg),
                                                        model: Some((iv, bv)),
                                                    }),
                                                    Leaf::LibPanic(m) => Leaf::Violation(Violation {
                                                        msg: format!("(only on concrete re-execution) panic: {}", m),
                                                        model: Some((iv, bv)),
                                                    }),
                                                    Leaf::EngineError(m) => Leaf::EngineError(m),
                                                }
                                            }
                                        }
                                    } else {
                                        Leaf::Ok(obs)
                                    }
                                }
                                l => l,
                            };
                            match leaf {
                                Leaf::Ok(_) => with(|e| e.stats.leaves_ok += 1),
                                Leaf::Vacuous => with(|e| e.stats.leaves_vacuous += 1),
                                Leaf::EngineError(m) => {
                                    errors.lock().unwrap().push(m);
                                    shared.stop.store(true, Ordering::SeqCst);
                                    ext_stop.store(true, Ordering::SeqCst);
                                }
                                Leaf::Violation(_) | Leaf::LibPanic(_) => {
                                    let (msg, model) = match leaf {
                                        Leaf::Violation(v) => (v.msg, v.model),
                                        Leaf::LibPanic(m) => (format!("panic: {}", m), None),
                                        _ => unreachable!(),
                                    };
                                    let fv = with(|e| {
                                        e.stats.leaves_violating += 1;
                                        let model = if model.is_some() {
                                            model
                                        } else if e.mode == Mode::Pinned {
                                            Some((e.values.clone(), e.bvalues.clone()))
                                        } else {
                                            let r = e.z3.as_mut().unwrap().check();
                                            if r == L_TRUE {
                                                e.current_model()
                                            } else {
                                                None
                                            }
                                        };
                                        let (ints, bools) = model.unwrap_or_default();
                                        FoundViolation {
                                            site: None,
                                            shape,
                                            msg,
                                            ints,
                                            bools,
                                            path_condition: e
                                                .stack
                                                .iter()
                                                .map(|s| format!("{}{:?}", if s.val { "" } else { "!" }, s.atom))
                                                .collect(),
                                            notes: e.run_notes.clone(),
                                        }
                                    });
                                    let mut fv = fv;
                                    fv.site = triage(shape, &fv.ints, &fv.bools, &fv.msg);
                                    let mut v = violations.lock().unwrap();
                                    if let Some(site) = &fv.site {
                                        // attributed to a call site: counted, a few examples kept,
                                        // does not stop the exploration
                                        let key = format!("attributed:{}", site);
                                        let n = with(|e| {
                                            let c = e.stats.witness.entry(key).or_insert(0);
                                            *c += 1;
                                            *c
                                        });
                                        if n <= 2 {
                                            v.push(fv);
                                        }
                                    } else {
                                        v.push(fv);
                                    }
                                    if v.iter().filter(|x| x.site.is_none()).count() >= opts.max_violations {
                                        shared.stop.store(true, Ordering::SeqCst);
                                        ext_stop.store(true, Ordering::SeqCst);
                                    }
                                }
                            }
                            // end run + backtrack
                            let done = with(|e| {
                                e.z3.as_mut().unwrap().pop(1);
                                while e.stack.len() > e.base_len
                                    && !e.stack.last().unwrap().alt_pending
                                {
                                    e.stack.pop();
                                }
                                if e.stack.len() == e.base_len {
                                    true
                                } else {
                                    let l = e.stack.last_mut().unwrap();
                                    l.val = !l.val;
                                    l.alt_pending = false;
                                    false
                                }
                            });
                            if done {
                                break;
                            }
                        }
                        shared.active.fetch_sub(1, Ordering::SeqCst);
                    }
                    // merge stats
                    let eng = ENG.with(|e| e.borrow_mut().take()).unwrap();
                    let mut st = eng.stats.clone();
                    if let Some(z) = &eng.z3 {
                        st.solver_checks = z.n_check;
                        st.solver_sat = z.n_sat;
                        st.solver_unsat = z.n_unsat;
                        st.solver_ns = z.solver_ns;
                    }
                    total.lock().unwrap().merge(&st);
                    xcheck.lock().unwrap().push_str(&eng.xcheck_buf);
                    let mut s = samples.lock().unwrap();
                    for x in eng.samples {
                        if s.len() < 4 {
                            s.push(x);
                        }
                    }
                })
                .unwrap();
        }
    });

    ExploreResult {
        xcheck: xcheck.into_inner().unwrap(),
        stats: total.into_inner().unwrap(),
        violations: violations.into_inner().unwrap(),
        engine_errors: errors.into_inner().unwrap(),
        timed_out: timed_out.load(Ordering::SeqCst),
        samples: samples.into_inner().unwrap(),
        shapes_done: shapes_started.load(Ordering::SeqCst),
    }
}

// ---------------------------------------------------------------- multi-process driver
//
// z3 4.8.12 serialises its contexts on a process-wide lock (measured: 16
// threads are no faster than 3), so the shards are *processes*: the parent
// forks `procs` children before any z3 context or thread exists; children
// draw shape indices from a counter in shared anonymous memory, explore each
// shape completely, and hand their results back through a JSON part file.

extern "C" {
    fn fork() -> i32;
    fn waitpid(pid: i32, status: *mut i32, options: i32) -> i32;
    fn mmap(addr: *mut std::ffi::c_void, len: usize, prot: i32, flags: i32, fd: i32, off: i64) -> *mut std::ffi::c_void;
    fn _exit(code: i32) -> !;
}

#[repr(C)]
struct ShmCtl {
    next: AtomicUsize,
    stop: AtomicBool,
}

fn stats_json(s: &Stats) -> serde_json::Value {
    serde_json::json!({
        "runs": s.runs, "leaves_ok": s.leaves_ok, "leaves_vacuous": s.leaves_vacuous,
        "leaves_violating": s.leaves_violating, "decisions": s.decisions, "forks": s.forks,
        "must_hold": s.must_hold, "entail_queries": s.entail_queries, "cmps": s.cmps,
        "solver_checks": s.solver_checks, "solver_sat": s.solver_sat, "solver_unsat": s.solver_unsat,
        "solver_ns": s.solver_ns as u64, "concrete_replays": s.concrete_replays,
        "witness": s.witness, "maxima": s.maxima, "max_depth": s.max_depth,
    })
}
fn stats_from(v: &serde_json::Value) -> Stats {
    let g = |k: &str| v[k].as_u64().unwrap_or(0);
    let mut w = BTreeMap::new();
    if let Some(o) = v["witness"].as_object() {
        for (k, x) in o {
            w.insert(k.clone(), x.as_u64().unwrap_or(0));
        }
    }
    Stats {
        runs: g("runs"),
        leaves_ok: g("leaves_ok"),
        leaves_vacuous: g("leaves_vacuous"),
        leaves_violating: g("leaves_violating"),
        decisions: g("decisions"),
        forks: g("forks"),
        must_hold: g("must_hold"),
        entail_queries: g("entail_queries"),
        cmps: g("cmps"),
        solver_checks: g("solver_checks"),
        solver_sat: g("solver_sat"),
        solver_unsat: g("solver_unsat"),
        solver_ns: g("solver_ns") as u128,
        concrete_replays: g("concrete_replays"),
        witness: w,
        maxima: {
            let mut m = BTreeMap::new();
            if let Some(o) = v["maxima"].as_object() {
                for (k, x) in o {
                    m.insert(k.clone(), x.as_u64().unwrap_or(0));
                }
            }
            m
        },
        max_depth: g("max_depth") as usize,
    }
}

/// Multi-process exploration of shapes `0..n_shapes` (in index order).
pub fn explore_mp<R>(n_shapes: usize, run: R, triage: Triage, opts: ExploreOpts, procs: usize, work_dir: &std::path::Path) -> ExploreResult
where
    R: Fn(usize) -> String + Sync,
{
    let _ = std::fs::create_dir_all(work_dir);
    let ctl: &ShmCtl = unsafe {
        let p = mmap(std::ptr::null_mut(), 4096, 3, 0x21, -1, 0);
        if p as isize == -1 {
            panic!("mmap failed");
        }
        let c = p as *mut ShmCtl;
        std::ptr::write(c, ShmCtl { next: AtomicUsize::new(0), stop: AtomicBool::new(false) });
        &*c
    };
    let next = || {
        let i = ctl.next.fetch_add(1, Ordering::SeqCst);
        if i < n_shapes {
            Some(i)
        } else {
            None
        }
    };
    let procs = procs.max(1).min(n_shapes.max(1));
    let mut pids = vec![];
    for k in 0..procs {
        let pid = unsafe { fork() };
        if pid < 0 {
            panic!("fork failed");
        }
        if pid == 0 {
            // child
            let r = explore(&next, &ctl.stop, &run, triage, &opts);
            let doc = serde_json::json!({
                "stats": stats_json(&r.stats),
                "violations": r.violations.iter().map(|v| serde_json::json!({
                    "shape": v.shape, "msg": v.msg, "ints": v.ints, "bools": v.bools, "site": v.site,
                    "pc": v.path_condition,
                    "notes": v.notes.iter().map(|(k, x)| serde_json::json!([k, x])).collect::<Vec<_>>(),
                })).collect::<Vec<_>>(),
                "errors": r.engine_errors, "timed_out": r.timed_out, "samples": r.samples,
                "shapes_done": r.shapes_done,
            });
            let path = work_dir.join(format!("part-{}.json", k));
            if !r.xcheck.is_empty() {
                let _ = std::fs::write(work_dir.join(format!("xcheck-{}.smt2", k)), format!("(set-logic QF_LIA)\n{}", r.xcheck));
            }
            let ok = std::fs::write(&path, serde_json::to_vec(&doc).unwrap()).is_ok();
            unsafe { _exit(if ok { 0 } else { 3 }) };
        }
        pids.push(pid);
    }
    let mut res = ExploreResult {
        xcheck: String::new(),
        stats: Stats::default(),
        violations: vec![],
        engine_errors: vec![],
        timed_out: false,
        samples: vec![],
        shapes_done: 0,
    };
    for (k, pid) in pids.iter().enumerate() {
        let mut status = 0i32;
        unsafe { waitpid(*pid, &mut status, 0) };
        let path = work_dir.join(format!("part-{}.json", k));
        let exited_ok = (status & 0x7f) == 0 && ((status >> 8) & 0xff) == 0;
        let txt = std::fs::read_to_string(&path);
        if !exited_ok || txt.is_err() {
            res.engine_errors.push(format!("worker process {} died (wait status {:#x}); its shard is not covered", k, status));
            continue;
        }
        let v: serde_json::Value = serde_json::from_str(&txt.unwrap()).unwrap();
        res.stats.merge(&stats_from(&v["stats"]));
        for x in v["violations"].as_array().unwrap() {
            res.violations.push(FoundViolation {
                site: x["site"].as_str().map(|s| s.to_string()),
                shape: x["shape"].as_u64().unwrap() as usize,
                msg: x["msg"].as_str().unwrap().to_string(),
                ints: x["ints"].as_array().unwrap().iter().map(|i| i.as_i64().unwrap()).collect(),
                bools: x["bools"].as_array().unwrap().iter().map(|i| i.as_bool().unwrap()).collect(),
                path_condition: x["pc"].as_array().unwrap().iter().map(|i| i.as_str().unwrap().to_string()).collect(),
                notes: x["notes"].as_array().unwrap().iter().map(|kv| (kv[0].as_str().unwrap().to_string(), kv[1].clone())).collect(),
            });
        }
        for e in v["errors"].as_array().unwrap() {
            res.engine_errors.push(e.as_str().unwrap().to_string());
        }
        res.timed_out |= v["timed_out"].as_bool().unwrap();
        for smp in v["samples"].as_array().unwrap() {
            if res.samples.len() < 4 {
                res.samples.push(smp.clone());
            }
        }
        res.shapes_done += v["shapes_done"].as_u64().unwrap() as usize;
        let _ = std::fs::remove_file(&path);
        // second solver: cvc5 must agree with z3 on every recorded query
        let xp = work_dir.join(format!("xcheck-{}.smt2", k));
        if xp.exists() {
            let txt = std::fs::read_to_string(&xp).unwrap_or_default();
            let expect: Vec<&str> = txt.lines().filter_map(|l| l.strip_prefix("; expect ")).collect();
            match std::process::Command::new("cvc5").arg("--incremental").arg("--lang").arg("smt2").arg(&xp).output() {
                Ok(o) => {
                    let out = String::from_utf8_lossy(&o.stdout).into_owned();
                    let got: Vec<&str> = out.lines().filter(|l| *l == "sat" || *l == "unsat").collect();
                    if out.contains("(error") || got.len() != expect.len() {
                        res.engine_errors.push(format!("cvc5 cross-check inconclusive on {} ({} answers for {} queries)", xp.display(), got.len(), expect.len()));
                    } else if got != expect {
                        res.engine_errors.push(format!("cvc5 disagrees with z3 on a recorded query; file kept: {}", xp.display()));
                    } else {
                        *res.stats.witness.entry("solver_queries_cross_checked_with_cvc5".into()).or_insert(0) += got.len() as u64;
                        let _ = std::fs::remove_file(&xp);
                    }
                }
                Err(e) => res.engine_errors.push(format!("cannot run cvc5: {}", e)),
            }
        }
    }
    let _ = std::fs::remove_dir(work_dir);
    res
}

/// Run `f` once, natively, on concrete values (the replay of a counterexample).
pub fn run_concrete(ints: &[i64], bools: &[bool], f: impl FnOnce() -> String) -> Leaf {
    let prev = ENG.with(|e| e.borrow_mut().take());
    let mut eng = Engine::new(false);
    eng.values = ints.to_vec();
    eng.bvalues = bools.to_vec();
    ENG.with(|e| *e.borrow_mut() = Some(eng));
    let r = catch_unwind(AssertUnwindSafe(f));
    let leaf = classify(r);
    ENG.with(|e| *e.borrow_mut() = prev);
    leaf
}
