//! Symbolic element type: one z3 Int constant per item.
use crate::engine::{self, Atom};
use std::cmp::Ordering;
use std::hash::{Hash, Hasher};

#[derive(Clone, Copy, Debug)]
pub struct Sym(pub u32);

impl Sym {
    pub fn fresh() -> Sym {
        Sym(engine::fresh_int())
    }
    pub fn fresh_vec(n: usize) -> Vec<Sym> {
        (0..n).map(|_| Sym::fresh()).collect()
    }
}

impl PartialEq for Sym {
    fn eq(&self, o: &Sym) -> bool {
        engine::note_cmp();
        if self.0 == o.0 {
            return true;
        }
        engine::decide(Atom::eq(self.0, o.0))
    }
}
impl Eq for Sym {}

impl PartialOrd for Sym {
    fn partial_cmp(&self, o: &Sym) -> Option<Ordering> {
        Some(self.cmp(o))
    }
}
impl Ord for Sym {
    fn cmp(&self, o: &Sym) -> Ordering {
        engine::note_cmp();
        if self.0 == o.0 {
            return Ordering::Equal;
        }
        if engine::decide(Atom::eq(self.0, o.0)) {
            Ordering::Equal
        } else if engine::decide(Atom::Lt(self.0, o.0)) {
            Ordering::Less
        } else {
            Ordering::Greater
        }
    }
}

/// Symbolic runs: writes nothing, so every item collides and the real HashMap
/// code has to resolve every key by `eq` (a solver decision).  A constant hash
/// is lawful (a == b => hash(a) == hash(b)).  Concrete replays hash the value,
/// so the real hashing path is exercised there.
impl Hash for Sym {
    fn hash<H: Hasher>(&self, h: &mut H) {
        if let Some(v) = engine::concrete_value_for_hash(self.0) {
            v.hash(h)
        }
    }
}

/// The same symbolic item behind a second type, for diffs whose old and new side have
/// different item types (`New::Output: PartialEq<Old::Output>`): it compares with `Sym`
/// through the same solver decisions but feeds different bytes to a Hasher - like `u32` and
/// `u64` items that compare equal.  Hash stays lawful within each type.
#[derive(Clone, Copy, Debug)]
pub struct SymB(pub Sym);
impl PartialEq for SymB {
    fn eq(&self, o: &SymB) -> bool {
        self.0 == o.0
    }
}
impl Eq for SymB {}
impl PartialEq<Sym> for SymB {
    fn eq(&self, o: &Sym) -> bool {
        self.0 == *o
    }
}
impl PartialEq<SymB> for Sym {
    fn eq(&self, o: &SymB) -> bool {
        *self == o.0
    }
}
impl PartialOrd for SymB {
    fn partial_cmp(&self, o: &SymB) -> Option<Ordering> {
        Some(self.0.cmp(&o.0))
    }
}
impl Ord for SymB {
    fn cmp(&self, o: &SymB) -> Ordering {
        self.0.cmp(&o.0)
    }
}
impl Hash for SymB {
    fn hash<H: Hasher>(&self, h: &mut H) {
        0xB2u8.hash(h);
        self.0.hash(h)
    }
}
