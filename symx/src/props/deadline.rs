//! C07 — deadline expiry at any probe still yields a valid diff, promptly; it is plumbed.
use super::{Meta, Prop, Tier};
use crate::claim;
use crate::common::*;
use crate::engine;
use crate::props::c01::describe_inputs;
use serde_json::{json, Value};
use similar::algorithms::{self, lcs, myers, patience};
use similar::{capture_diff_deadline, capture_diff_slices_deadline, Algorithm, DiffOp};

#[derive(Clone, Copy, Debug, PartialEq, Eq)]
pub enum Entry {
    AlgDiffDeadline,
    ModuleDeadline,
    SlicesDeadline,
    CaptureDeadline,
    CaptureSlicesDeadline,
    /// TextDiff::configure().algorithm(a).deadline(instant).diff_slices(..)
    TextConfigDeadline,
    /// TextDiff::configure().algorithm(a).timeout(duration).diff_slices(..)
    TextConfigTimeout,
    /// TextDiffConfig::deadline / ::timeout on inputs of more than 100 tokens (the
    /// IdentifyDistinct branch of TextDiffConfig::diff): `n` + 100 and `m` + 100 pairwise
    /// different tokens, clock already expired (`m` even: deadline, odd: timeout)
    TextConfigBig,
    /// capture_diff_slices_deadline with a clock that never expires on `n` different items, `m`
    /// common items, `n` different items per side (all else different): must equal no deadline
    NeverExpiresLong,
}
impl Entry {
    fn name(&self) -> &'static str {
        match self {
            Entry::AlgDiffDeadline => "algorithms::diff_deadline",
            Entry::ModuleDeadline => "<alg>::diff_deadline",
            Entry::SlicesDeadline => "algorithms::diff_slices_deadline",
            Entry::CaptureDeadline => "capture_diff_deadline",
            Entry::CaptureSlicesDeadline => "capture_diff_slices_deadline",
            Entry::TextConfigDeadline => "TextDiffConfig::deadline",
            Entry::TextConfigTimeout => "TextDiffConfig::timeout",
            Entry::TextConfigBig => "TextDiffConfig::deadline/timeout (>100 tokens)",
            Entry::NeverExpiresLong => "capture_diff_slices_deadline (never expires, long barren stretches)",
        }
    }
    fn from(s: &str) -> Entry {
        match s {
            "algorithms::diff_deadline" => Entry::AlgDiffDeadline,
            "<alg>::diff_deadline" => Entry::ModuleDeadline,
            "algorithms::diff_slices_deadline" => Entry::SlicesDeadline,
            "capture_diff_deadline" => Entry::CaptureDeadline,
            "TextDiffConfig::deadline" => Entry::TextConfigDeadline,
            "TextDiffConfig::timeout" => Entry::TextConfigTimeout,
            "TextDiffConfig::deadline/timeout (>100 tokens)" => Entry::TextConfigBig,
            "capture_diff_slices_deadline (never expires, long barren stretches)" => Entry::NeverExpiresLong,
            _ => Entry::CaptureSlicesDeadline,
        }
    }
    fn raw(&self) -> bool {
        matches!(self, Entry::AlgDiffDeadline | Entry::ModuleDeadline | Entry::SlicesDeadline)
    }
    fn slices_only(&self) -> bool {
        matches!(self, Entry::SlicesDeadline | Entry::CaptureSlicesDeadline | Entry::TextConfigDeadline | Entry::TextConfigTimeout | Entry::TextConfigBig | Entry::NeverExpiresLong)
    }
}

#[derive(Clone, Debug)]
pub struct Shape {
    pub alg: Algorithm,
    pub n: usize,
    pub m: usize,
    pub layout: Layout,
    pub entry: Entry,
}

pub struct C07;

enum Obs {
    Raw(Vec<Call>),
    Ops(Vec<DiffOp>),
}

fn run_entry(s: &Shape, inp: &Inputs, dl: Option<std::time::Instant>) -> Obs {
    match s.entry {
        Entry::AlgDiffDeadline | Entry::ModuleDeadline | Entry::SlicesDeadline => {
            let mut mon = Mon::new(&inp.old, inp.or.clone(), &inp.new, inp.nr.clone());
            let r = match s.entry {
                Entry::AlgDiffDeadline => algorithms::diff_deadline(s.alg, &mut mon, &inp.old, inp.or.clone(), &inp.new, inp.nr.clone(), dl),
                Entry::ModuleDeadline => match s.alg {
                    Algorithm::Myers => myers::diff_deadline(&mut mon, &inp.old, inp.or.clone(), &inp.new, inp.nr.clone(), dl),
                    Algorithm::Patience => patience::diff_deadline(&mut mon, &inp.old, inp.or.clone(), &inp.new, inp.nr.clone(), dl),
                    Algorithm::Lcs => lcs::diff_deadline(&mut mon, &inp.old, inp.or.clone(), &inp.new, inp.nr.clone(), dl),
                },
                _ => match (&inp.old, &inp.new) {
                    (Seq::Slice(o), Seq::Slice(n)) => algorithms::diff_slices_deadline(s.alg, &mut mon, &o[..], &n[..], dl),
                    _ => unreachable!(),
                },
            };
            claim!(r.is_ok(), "diff returned an error although the hook never fails: {:?}", r);
            mon.after_success();
            Obs::Raw(mon.calls.clone())
        }
        Entry::CaptureDeadline => Obs::Ops(capture_diff_deadline(s.alg, &inp.old, inp.or.clone(), &inp.new, inp.nr.clone(), dl)),
        Entry::CaptureSlicesDeadline => match (&inp.old, &inp.new) {
            (Seq::Slice(o), Seq::Slice(n)) => Obs::Ops(capture_diff_slices_deadline(s.alg, &o[..], &n[..], dl)),
            _ => unreachable!(),
        },
        Entry::TextConfigBig | Entry::NeverExpiresLong => unreachable!("handled separately"),
        Entry::TextConfigDeadline | Entry::TextConfigTimeout => match (&inp.old, &inp.new) {
            (Seq::Slice(o), Seq::Slice(n)) => {
                use crate::symtxt::SymTxt;
                let ot: Vec<&SymTxt> = (0..o.len()).map(|i| SymTxt::new(&o[i..i + 1])).collect();
                let nt: Vec<&SymTxt> = (0..n.len()).map(|i| SymTxt::new(&n[i..i + 1])).collect();
                let mut c = similar::TextDiff::configure();
                c.algorithm(s.alg);
                if let Some(d) = dl {
                    // the setter called last wins; the other one is called first with a different value
                    let other = std::time::Duration::from_secs(7200);
                    if s.entry == Entry::TextConfigDeadline {
                        if (s.n + s.m) % 2 == 1 {
                            c.timeout(other);
                        }
                        c.deadline(d);
                    } else {
                        if (s.n + s.m) % 2 == 1 {
                            c.deadline(d + other);
                        }
                        c.timeout(std::time::Duration::from_secs(3600));
                    }
                }
                Obs::Ops(c.diff_slices(&ot, &nt).ops().to_vec())
            }
            _ => unreachable!(),
        },
    }
}

impl C07 {
    /// Above the 100-token threshold: all tokens pairwise different (one z3 distinct, class
    /// hashing is lawful), clock expired from the first probe on.  The deadline set on the
    /// builder must reach the algorithm (>= 1 probe) and the result must be a valid script
    /// computed with O(N+M) comparisons.
    fn run_big(&self, s: &Shape) -> String {
        use crate::symtxt::SymTxt;
        use crate::sym::Sym;
        let (n, m) = (s.n + 100, s.m + 100);
        let old = Sym::fresh_vec(n);
        let new = Sym::fresh_vec(m);
        let all: Vec<u32> = old.iter().chain(new.iter()).map(|x| x.0).collect();
        engine::assume(&crate::engine::F::Distinct(all.clone()));
        for id in &all {
            engine::set_hash_class(*id, *id as u64);
        }
        let ot: Vec<&SymTxt> = (0..n).map(|i| SymTxt::new(&old[i..i + 1])).collect();
        let nt: Vec<&SymTxt> = (0..m).map(|i| SymTxt::new(&new[i..i + 1])).collect();
        let probes = std::rc::Rc::new(std::cell::Cell::new(0u32));
        let p2 = probes.clone();
        let seen = std::rc::Rc::new(std::cell::RefCell::new(Vec::<std::time::Instant>::new()));
        let s2 = seen.clone();
        similar::verif_clock::install(Some(Box::new(move |dl| {
            p2.set(p2.get() + 1);
            s2.borrow_mut().push(dl);
            true
        })));
        let mut c = similar::TextDiff::configure();
        c.algorithm(s.alg);
        let d0 = std::time::Instant::now() + std::time::Duration::from_secs(12345);
        let hour = std::time::Duration::from_secs(3600);
        let t_before = std::time::Instant::now();
        // the setter called last wins: m%4 = 0: deadline; 1: timeout; 2: timeout then deadline; 3: deadline then timeout
        match s.m % 4 {
            0 => {
                c.deadline(d0);
            }
            1 => {
                c.timeout(hour);
            }
            2 => {
                c.timeout(hour).deadline(d0);
            }
            _ => {
                c.deadline(d0).timeout(hour);
            }
        }
        let c0 = engine::run_cmps();
        let diff = c.diff_slices(&ot, &nt);
        let t_after = std::time::Instant::now();
        for dl in seen.borrow().iter() {
            if s.m % 2 == 0 {
                claim!(*dl == d0, "the deadline that reached the algorithm is not the one configured last on the builder");
            } else {
                claim!(*dl >= t_before + hour && *dl <= t_after + hour, "the timeout configured last on the builder did not reach the algorithm as now + timeout");
            }
        }
        let cmps = engine::run_cmps() - c0;
        similar::verif_clock::install(None);
        let ops = diff.ops().to_vec();
        validate_ops(&ops, &old, 0..n, &new, 0..m, OpsCheck::default());
        engine::witness("paths_above_the_token_threshold");
        claim!(
            probes.get() >= 1,
            "the deadline configured on the text-diff builder never reached a deadline check for {} / {} tokens (0 probes on inputs without common items)",
            n, m
        );
        // the items are mapped to integers first, so Sym comparisons only happen in IdentifyDistinct
        let bound = 8 * (n + m) as u64;
        claim!(cmps <= bound, "{} element comparisons with an expired deadline on {} + {} tokens", cmps, n, m);
        format!("{:?}", ops)
    }
}

impl Prop for C07 {
    type Shape = Shape;
    fn id(&self) -> &'static str {
        "C07"
    }
    fn shapes(&self, tier: Tier) -> Vec<Shape> {
        let mut v = vec![];
        let max = match tier {
            Tier::Quick => 4,
            Tier::Thorough => 5,
        };
        for alg in ALGS {
            for (n, m) in [(1usize, 2usize), (1, 3), (3, 0), (0, 1)] {
                v.push(Shape { alg, n, m, layout: Layout::Slice { pre_o: 0, post_o: 0, pre_n: 0, post_n: 0 }, entry: Entry::TextConfigBig });
            }
            for (n, m) in [(9usize, 1usize), (20, 3), (40, 2)] {
                v.push(Shape { alg, n, m, layout: Layout::Slice { pre_o: 0, post_o: 0, pre_n: 0, post_n: 0 }, entry: Entry::NeverExpiresLong });
            }
            // mid-sized structured inputs (up to 140 items in total), also as sub-ranges at non-zero
            // offsets: the search runs for many rounds, so the deadline can expire late (every
            // probe of the run is an expiry point)
            for layout in long_layouts(false) {
                let (n, m) = layout_lens(&layout, 0, 0);
                if n + m > 140 || (alg == Algorithm::Lcs && n * m > 1500) {
                    continue;
                }
                for entry in [Entry::AlgDiffDeadline, Entry::CaptureDeadline] {
                    v.push(Shape { alg, n, m, layout, entry });
                }
            }
            for n in 0..=max {
                for m in 0..=max {
                    for layout in [
                        Layout::Slice { pre_o: 0, post_o: 0, pre_n: 0, post_n: 0 },
                        Layout::Slice { pre_o: 1, post_o: 1, pre_n: 1, post_n: 0 },
                        Layout::Offset { off_o: 2, off_n: 1 },
                    ] {
                        for entry in [Entry::AlgDiffDeadline, Entry::ModuleDeadline, Entry::SlicesDeadline, Entry::CaptureDeadline, Entry::CaptureSlicesDeadline, Entry::TextConfigDeadline, Entry::TextConfigTimeout] {
                            if entry.slices_only() && !layout.is_plain() {
                                continue;
                            }
                            if n + m > 8 && (!layout.is_plain() || entry == Entry::ModuleDeadline) {
                                continue;
                            }
                            v.push(Shape { alg, n, m, layout, entry });
                        }
                    }
                }
            }
        }
        v
    }

    fn run(&self, s: &Shape) -> String {
        reset_hooks();
        if s.entry == Entry::TextConfigBig {
            return self.run_big(s);
        }
        if s.entry == Entry::NeverExpiresLong {
            use crate::sym::Sym;
            let (k, c) = (s.n, s.m);
            let (o1, o2, n1, n2, common) = (Sym::fresh_vec(k), Sym::fresh_vec(k), Sym::fresh_vec(k), Sym::fresh_vec(k), Sym::fresh_vec(c));
            let all: Vec<u32> = o1.iter().chain(&o2).chain(&n1).chain(&n2).chain(&common).map(|x| x.0).collect();
            engine::assume(&crate::engine::F::Distinct(all.clone()));
            for id in &all {
                engine::set_hash_class(*id, *id as u64);
            }
            let old: Vec<Sym> = o1.iter().chain(&common).chain(&o2).copied().collect();
            let new: Vec<Sym> = n1.iter().chain(&common).chain(&n2).copied().collect();
            let probes = std::rc::Rc::new(std::cell::Cell::new(0u32));
            let p2 = probes.clone();
            similar::verif_clock::install(Some(Box::new(move |_| {
                p2.set(p2.get() + 1);
                false
            })));
            let with = capture_diff_slices_deadline(s.alg, &old, &new, any_instant());
            similar::verif_clock::install(None);
            let without = similar::capture_diff_slices(s.alg, &old, &new);
            engine::witness("paths_with_long_barren_stretches");
            engine::witness("paths_where_the_deadline_never_fired");
            claim!(
                with == without,
                "a deadline that never expires gives {:?} but no deadline gives {:?} ({} different + {} common + {} different items per side)",
                with, without, k, c, k
            );
            claim!(probes.get() >= 1, "the deadline never reached a deadline check");
            return format!("{:?}", with);
        }
        let inp = make_inputs(s.n, s.m, s.layout);
        let clock = install_clock();
        let d0 = std::time::Instant::now() + std::time::Duration::from_secs(4242);
        let t_before = std::time::Instant::now();
        let obs = run_entry(s, &inp, Some(d0));
        let t_after = std::time::Instant::now();
        let cmps_total = engine::run_cmps();
        similar::verif_clock::install(None);
        if s.entry == Entry::TextConfigTimeout {
            let hour = std::time::Duration::from_secs(3600);
            for dl in clock.deadlines_seen.borrow().iter() {
                claim!(
                    *dl >= t_before + hour && *dl <= t_after + hour,
                    "TextDiffConfig::timeout: the deadline that reached the algorithm is not now + the timeout configured last"
                );
            }
        } else {
            claim_only_deadline(&clock, d0, s.entry.name());
        }
        let fired = clock.fired_at.get();
        let probes = clock.probes.get();
        let text = match &obs {
            Obs::Raw(c) => format!("{:?}", c),
            Obs::Ops(o) => format!("{:?}", o),
        };
        if let Obs::Ops(ops) = &obs {
            validate_ops(ops, &inp.old, inp.or.clone(), &inp.new, inp.nr.clone(), OpsCheck::default());
        }
        if let Some(k) = fired {
            engine::witness("paths_where_the_deadline_fired");
            if k == 0 {
                engine::witness("paths_expired_before_the_first_probe_returned");
            } else {
                engine::witness("paths_expired_at_a_later_probe");
            }
            let after = cmps_total - engine::cmp_mark().unwrap_or(cmps_total);
            let (per, c0) = if s.entry.raw() {
                (konst("c07_raw_after_expiry_per_item"), konst("c07_raw_after_expiry_const"))
            } else {
                (konst("c07_captured_after_expiry_per_item"), konst("c07_captured_after_expiry_const"))
            };
            let bound = per * (s.n + s.m) as u64 + c0;
            engine::stat_max(
                if s.entry.raw() { "raw_comparisons_after_expiry_x100_per_item" } else { "captured_comparisons_after_expiry_x100_per_item" },
                after * 100 / ((s.n + s.m) as u64).max(1),
            );
            claim!(
                after <= bound,
                "{} element comparisons after the deadline expired (at probe {}), more than {}*(N+M)+{} = {}; result {}",
                after, k, per, c0, bound, text
            );
            if k == 0 {
                // the very first probe said 'expired': this path is also the run of a deadline that had
                // expired before the diff started, so everything the diff did came after the expiry
                let (per0, c00) = (konst("c07_expired_before_start_per_item"), konst("c07_expired_before_start_const"));
                let bound0 = per0 * (s.n + s.m) as u64 + c00;
                engine::stat_max("total_comparisons_when_expired_before_the_start_x100_per_item", cmps_total * 100 / ((s.n + s.m) as u64).max(1));
                claim!(
                    cmps_total <= bound0,
                    "{} element comparisons in total although the deadline had expired before the first probe, more than {}*(N+M)+{} = {}; result {}",
                    cmps_total, per0, c00, bound0, text
                );
            }
        } else {
            engine::witness("paths_where_the_deadline_never_fired");
            // a deadline that never expires gives exactly the result of no deadline
            let obs2 = run_entry(s, &inp, None);
            let text2 = match &obs2 {
                Obs::Raw(c) => format!("{:?}", c),
                Obs::Ops(o) => format!("{:?}", o),
            };
            claim!(
                text == text2,
                "a deadline that never expires gives {} but no deadline gives {}",
                text, text2
            );
        }
        // plumbing: with nothing in common every algorithm must consult the clock
        if s.n >= 1 && s.m >= 1 && entails_disjoint(&inp.old_items, &inp.new_items) {
            engine::witness("paths_with_disjoint_inputs");
            claim!(
                probes >= 1,
                "the deadline passed to {} never reached a deadline check (0 probes on inputs without common items)",
                s.entry.name()
            );
        }
        engine::offer_sample(|| json!({"shape": self.shape_json(s), "path_condition": engine::path_condition(), "expired_at_probe": fired, "probes": probes, "result": text}));
        text
    }

    fn cost(&self, s: &Shape) -> u64 {
        (s.n + s.m) as u64
    }
    fn shape_json(&self, s: &Shape) -> Value {
        json!({"alg": alg_name(s.alg), "n": s.n, "m": s.m, "layout": s.layout.to_json(), "entry": s.entry.name()})
    }
    fn shape_from(&self, v: &Value) -> Shape {
        Shape {
            alg: alg_from(v["alg"].as_str().unwrap()),
            n: v["n"].as_u64().unwrap() as usize,
            m: v["m"].as_u64().unwrap() as usize,
            layout: Layout::from_json(&v["layout"]),
            entry: Entry::from(v["entry"].as_str().unwrap()),
        }
    }
    fn describe(&self, s: &Shape, ints: &[i64], bools: &[bool]) -> Value {
        let mut d = describe_inputs(s.n, s.m, s.layout, ints);
        d["deadline_probe_outcomes"] = json!(bools);
        d
    }
    fn meta(&self, tier: Tier) -> Meta {
        Meta {
            functions: vec![
                "similar::deadline_support::deadline_exceeded (H1: asks the symbolic clock)",
                "similar::algorithms::{diff_deadline, diff_slices_deadline}",
                "similar::algorithms::myers::{diff_deadline, conquer, find_middle_snake}",
                "similar::algorithms::patience::diff_deadline (+ Patience hook, unique)",
                "similar::algorithms::lcs::{diff_deadline, make_table}",
                "similar::{capture_diff_deadline, capture_diff_slices_deadline} (+ Compact, Replace, Capture)",
                "similar::TextDiffConfig::{deadline, timeout, diff_slices, diff}, Deadline::into_instant, deadline_support::duration_to_deadline",
            ],
            bounds: format!("3 algorithms x n,m in 0..={} x 3 layouts x 7 entry points (incl. TextDiffConfig::deadline and ::timeout over one-character SymTxt tokens), plus the mid-sized structured inputs of common.rs::long_layouts with at most 140 items in total (about 45, some as sub-ranges at non-zero offsets, offset lookups or interned-pool lookups) through algorithms::diff_deadline and capture_diff_deadline, every probe of each run an expiry point; plus a never-expiring clock on inputs with long stretches without any match (9+1+9, 20+3+20, 40+2+40 items per side) compared with no deadline; plus TextDiffConfig::deadline / ::timeout above the 100-token threshold (100..103 pairwise different tokens per side, clock already expired); the clock is symbolic: one z3 Bool per deadline probe with a latch, so 'expired before the start', 'at probe k' for every reachable k, and 'never' are all explored; work bound after expiry: raw {}*(N+M)+{}, captured {}*(N+M)+{} comparisons (constants.json); on paths whose first probe already reports expiry (= a deadline expired before the start) the total number of comparisons of the run is bounded by c07_expired_before_start_per_item*(N+M)+c07_expired_before_start_const", match tier { Tier::Quick => 4, Tier::Thorough => 5 }, konst("c07_raw_after_expiry_per_item"), konst("c07_raw_after_expiry_const"), konst("c07_captured_after_expiry_per_item"), konst("c07_captured_after_expiry_const")),
            outside: "wall-clock behaviour of Instant::now itself; lengths beyond the bound (so the 'small constant multiple' is only bounded on small inputs)".into(),
            assumptions: vec![
                "H1 (cfg similar_verif): deadline_exceeded consults the installed oracle instead of Instant::now() when a deadline is present".into(),
                "time is monotone: once expired, stays expired (latch)".into(),
            ],
            required_witnesses: vec![
                "paths_where_the_deadline_fired",
                "paths_expired_at_a_later_probe",
                "paths_where_the_deadline_never_fired",
                "paths_with_disjoint_inputs",
                "paths_above_the_token_threshold",
                "paths_with_long_barren_stretches",
            ],
            rule: "one state = one explored path = one equality pattern x one expiry point; one transition = one solver-decided comparison or clock probe".into(),
        }
    }
}
