//! C10 — Compact and Replace preserve meaning and cost of any valid script.
use super::{Meta, Prop, Tier};
use crate::claim;
use crate::common::*;
use crate::engine::{self, F};
use serde_json::{json, Value};
use similar::algorithms::{Capture, Compact, DiffHook, Replace};
use similar::DiffOp;

#[derive(Clone, Copy, Debug, PartialEq, Eq)]
pub enum Pipe {
    Compact,
    Replace,
    CompactReplace,
}
impl Pipe {
    fn name(&self) -> &'static str {
        match self {
            Pipe::Compact => "Compact",
            Pipe::Replace => "Replace",
            Pipe::CompactReplace => "Compact<Replace>",
        }
    }
}

#[derive(Clone, Debug)]
pub struct Shape {
    pub n: usize,
    pub m: usize,
    /// runs: ('E'|'D'|'I', len)
    pub script: Vec<(char, usize)>,
    pub pipe: Pipe,
    pub layout: Layout,
}

fn unit_paths(n: usize, m: usize, i: usize, j: usize, cur: &mut Vec<char>, out: &mut Vec<Vec<char>>) {
    if i == n && j == m {
        out.push(cur.clone());
        return;
    }
    if i < n && j < m {
        cur.push('E');
        unit_paths(n, m, i + 1, j + 1, cur, out);
        cur.pop();
    }
    if i < n {
        cur.push('D');
        unit_paths(n, m, i + 1, j, cur, out);
        cur.pop();
    }
    if j < m {
        cur.push('I');
        unit_paths(n, m, i, j + 1, cur, out);
        cur.pop();
    }
}

/// every way to cut a unit-step sequence into runs of equal kind
fn cuttings(steps: &[char]) -> Vec<Vec<(char, usize)>> {
    let mut res: Vec<Vec<(char, usize)>> = vec![vec![]];
    for (idx, &c) in steps.iter().enumerate() {
        let mut next = vec![];
        for r in &res {
            // start a new run
            let mut a = r.clone();
            a.push((c, 1));
            next.push(a);
            // or extend the previous run of the same kind
            if idx > 0 && steps[idx - 1] == c {
                let mut b = r.clone();
                b.last_mut().unwrap().1 += 1;
                next.push(b);
            }
        }
        res = next;
    }
    res
}

pub fn scripts(n: usize, m: usize) -> Vec<Vec<(char, usize)>> {
    let mut paths = vec![];
    unit_paths(n, m, 0, 0, &mut vec![], &mut paths);
    let mut out = vec![];
    for p in paths {
        out.extend(cuttings(&p));
    }
    out
}

/// `C10(false)`: the full property C10.  `C10(true)`: only the normal-form clause of C09 on
/// arbitrary valid scripts pushed through Compact<Replace> (sub-check "C09b").
pub struct C10(pub bool);

/// Valid scripts for a long structured input, computed from its (concrete) item pattern.
fn long_scripts(po: &[u32], pn: &[u32]) -> Vec<Vec<(char, usize)>> {
    let (n, m) = (po.len(), pn.len());
    let p = po.iter().zip(pn.iter()).take_while(|(a, b)| a == b).count();
    let q = po[p..].iter().rev().zip(pn[p..].iter().rev()).take_while(|(a, b)| a == b).count();
    let qfull = po.iter().rev().zip(pn.iter().rev()).take_while(|(a, b)| a == b).count();
    let clean = |v: Vec<(char, usize)>| -> Vec<(char, usize)> { v.into_iter().filter(|x| x.1 > 0).collect() };
    let chunk = |v: &Vec<(char, usize)>, ce: usize, cd: usize| -> Vec<(char, usize)> {
        let mut out = vec![];
        for &(k, mut len) in v {
            let c = if k == 'E' { ce } else { cd };
            while len > c {
                out.push((k, c));
                len -= c;
            }
            out.push((k, len));
        }
        out
    };
    let mut out = vec![];
    let s1 = clean(vec![('E', p), ('D', n - p - q), ('I', m - p - q), ('E', q)]);
    out.push(s1.clone());
    out.push(clean(vec![('E', p), ('I', m - p - q), ('D', n - p - q), ('E', q)]));
    out.push(chunk(&s1, 7, 5));
    out.push(clean(vec![('E', p), ('D', n - p), ('I', m - p)]));
    out.push(clean(vec![('D', n - qfull), ('I', m - qfull), ('E', qfull)]));
    // a longest-common-subsequence alignment, as runs and in unit steps
    let mut t = vec![vec![0u32; m + 1]; n + 1];
    for i in (0..n).rev() {
        for j in (0..m).rev() {
            t[i][j] = if po[i] == pn[j] { t[i + 1][j + 1] + 1 } else { t[i + 1][j].max(t[i][j + 1]) };
        }
    }
    let (mut i, mut j) = (0, 0);
    let mut steps: Vec<char> = vec![];
    while i < n || j < m {
        if i < n && j < m && po[i] == pn[j] && t[i][j] == t[i + 1][j + 1] + 1 {
            steps.push('E');
            i += 1;
            j += 1;
        } else if j < m && (i == n || t[i][j + 1] >= t[i + 1][j]) {
            steps.push('I');
            j += 1;
        } else {
            steps.push('D');
            i += 1;
        }
    }
    let mut runs: Vec<(char, usize)> = vec![];
    for c in &steps {
        match runs.last_mut() {
            Some(r) if r.0 == *c => r.1 += 1,
            _ => runs.push((*c, 1)),
        }
    }
    out.push(runs.clone());
    out.push(chunk(&runs, 1, 1));
    out.sort();
    out.dedup();
    out
}

fn feed<D: DiffHook>(ops: &[DiffOp], d: &mut D) -> Result<(), D::Error> {
    for op in ops {
        op.apply_to_hook(d)?;
    }
    d.finish()
}

impl Prop for C10 {
    type Shape = Shape;
    fn id(&self) -> &'static str {
        if self.0 {
            "C09b"
        } else {
            "C10"
        }
    }
    fn shapes(&self, tier: Tier) -> Vec<Shape> {
        let max = match tier {
            Tier::Quick => 5,
            Tier::Thorough => 6,
        };
        let mut v = vec![];
        for n in 0..=max {
            for m in 0..=max {
                for script in scripts(n, m) {
                    if self.0 {
                        v.push(Shape { n, m, script: script.clone(), pipe: Pipe::CompactReplace, layout: Layout::Slice { pre_o: 0, post_o: 0, pre_n: 0, post_n: 0 } });
                        continue;
                    }
                    for pipe in [Pipe::Compact, Pipe::Replace, Pipe::CompactReplace] {
                        v.push(Shape { n, m, script: script.clone(), pipe, layout: Layout::Slice { pre_o: 0, post_o: 0, pre_n: 0, post_n: 0 } });
                    }
                    if n + m <= 5 {
                        v.push(Shape { n, m, script: script.clone(), pipe: Pipe::CompactReplace, layout: Layout::Offset { off_o: 2, off_n: 1 } });
                        v.push(Shape { n, m, script: script.clone(), pipe: Pipe::Compact, layout: Layout::Slice { pre_o: 1, post_o: 1, pre_n: 0, post_n: 1 } });
                    }
                }
            }
        }
        // long structured inputs with several valid scripts each
        for layout in long_layouts(tier == Tier::Thorough) {
            if let Layout::Long { fam, k, var, .. } = layout {
                let (po, pn, _) = long_pattern(fam, k as usize, var);
                for script in long_scripts(&po, &pn) {
                    let pipes: &[Pipe] = if self.0 { &[Pipe::CompactReplace] } else { &[Pipe::Compact, Pipe::Replace, Pipe::CompactReplace] };
                    for &pipe in pipes {
                        v.push(Shape { n: po.len(), m: pn.len(), script: script.clone(), pipe, layout });
                    }
                }
            }
        }
        v
    }

    fn run(&self, s: &Shape) -> String {
        reset_hooks();
        let inp = make_inputs(s.n, s.m, s.layout);
        // build the script with the exact indices a correct producer sends, and
        // assume the equalities its Equal runs state
        let (mut oc, mut nc) = (inp.or.start, inp.nr.start);
        let mut ops = vec![];
        let mut eqs = vec![];
        let (mut del, mut ins) = (0, 0);
        for &(k, len) in &s.script {
            match k {
                'E' => {
                    for t in 0..len {
                        eqs.push(F::eq(inp.old[oc + t].0, inp.new[nc + t].0));
                    }
                    ops.push(DiffOp::Equal { old_index: oc, new_index: nc, len });
                    oc += len;
                    nc += len;
                }
                'D' => {
                    ops.push(DiffOp::Delete { old_index: oc, old_len: len, new_index: nc });
                    oc += len;
                    del += len;
                }
                _ => {
                    ops.push(DiffOp::Insert { old_index: oc, new_index: nc, new_len: len });
                    nc += len;
                    ins += len;
                }
            }
        }
        if !eqs.is_empty() {
            engine::assume(&F::And(eqs));
        }
        let obs;
        match s.pipe {
            Pipe::Compact | Pipe::Replace => {
                let mut mon = Mon::new(&inp.old, inp.or.clone(), &inp.new, inp.nr.clone());
                let r = if s.pipe == Pipe::Compact {
                    mon.check_carried = false;
                    let mut d = Compact::new(&mut mon, &inp.old, &inp.new);
                    feed(&ops, &mut d)
                } else {
                    mon.exact_carried = true;
                    let mut d = Replace::new(&mut mon);
                    feed(&ops, &mut d)
                };
                claim!(r.is_ok(), "adapter returned an error: {:?}", r);
                mon.after_success();
                claim!(
                    mon.deleted == del && mon.inserted == ins,
                    "{} changed the cost of the script: in {} deleted / {} inserted, out {} / {} (script {:?}, output {:?})",
                    s.pipe.name(), del, ins, mon.deleted, mon.inserted, ops, mon.calls
                );
                if mon.calls.iter().any(|c| matches!(c, Call::Replace(..))) {
                    engine::witness("paths_with_replace_call");
                }
                obs = format!("{:?}", mon.calls);
                if s.pipe == Pipe::Replace {
                    // the same adapter object used for the script twice in a row: same calls both times
                    struct Plain(Vec<Call>);
                    impl DiffHook for Plain {
                        type Error = ();
                        fn equal(&mut self, a: usize, b: usize, c: usize) -> Result<(), ()> {
                            self.0.push(Call::Equal(a, b, c));
                            Ok(())
                        }
                        fn delete(&mut self, a: usize, b: usize, c: usize) -> Result<(), ()> {
                            self.0.push(Call::Delete(a, b, c));
                            Ok(())
                        }
                        fn insert(&mut self, a: usize, b: usize, c: usize) -> Result<(), ()> {
                            self.0.push(Call::Insert(a, b, c));
                            Ok(())
                        }
                        fn replace(&mut self, a: usize, b: usize, c: usize, d: usize) -> Result<(), ()> {
                            self.0.push(Call::Replace(a, b, c, d));
                            Ok(())
                        }
                        fn finish(&mut self) -> Result<(), ()> {
                            self.0.push(Call::Finish);
                            Ok(())
                        }
                    }
                    let mut plain = Plain(vec![]);
                    {
                        let mut d = Replace::new(&mut plain);
                        feed(&ops, &mut d).unwrap();
                        feed(&ops, &mut d).unwrap();
                    }
                    let half = plain.0.len() / 2;
                    claim!(
                        plain.0.len() % 2 == 0 && plain.0[..half] == plain.0[half..],
                        "the same script fed twice through one Replace adapter gives different calls the second time: {:?}",
                        plain.0
                    );
                    engine::witness("paths_with_a_reused_adapter");
                }
            }
            Pipe::CompactReplace => {
                let mut d = Compact::new(Replace::new(Capture::new()), &inp.old, &inp.new);
                feed(&ops, &mut d).unwrap();
                let out = d.into_inner().into_inner().into_ops();
                let (d2, i2, _) = validate_ops(&out, &inp.old, inp.or.clone(), &inp.new, inp.nr.clone(), OpsCheck { exact_indices: false, normal_form: true });
                claim!(
                    self.0 || (d2 == del && i2 == ins),
                    "Compact<Replace> changed the cost of the script: in {} deleted / {} inserted, out {} / {} (script {:?}, output {:?})",
                    del, ins, d2, i2, ops, out
                );
                obs = format!("{:?}", out);
            }
        }
        if similar::algorithms::verif_swap::swaps() > 0 {
            engine::witness("paths_that_took_a_compaction_swap");
        }
        if s.script.windows(2).any(|w| w[0].0 == 'I' && w[1].0 == 'D') {
            engine::witness("scripts_with_insert_before_delete");
        }
        if matches!(s.layout, Layout::Long { .. }) {
            engine::witness("long_structured_paths");
        }
        if s.script.windows(2).any(|w| w[0].0 == 'E' && w[1].0 == 'E') {
            engine::witness("scripts_with_split_equal_runs");
        }
        engine::offer_sample(|| json!({"shape": self.shape_json(s), "path_condition": engine::path_condition(), "script": format!("{:?}", ops), "output": obs.clone()}));
        obs
    }

    fn cost(&self, s: &Shape) -> u64 {
        (s.n + s.m) as u64
    }
    fn shape_json(&self, s: &Shape) -> Value {
        json!({"n": s.n, "m": s.m, "script": s.script.iter().map(|(k, l)| format!("{}{}", k, l)).collect::<Vec<_>>(), "pipe": s.pipe.name(), "layout": s.layout.to_json()})
    }
    fn shape_from(&self, v: &Value) -> Shape {
        Shape {
            n: v["n"].as_u64().unwrap() as usize,
            m: v["m"].as_u64().unwrap() as usize,
            script: v["script"].as_array().unwrap().iter().map(|x| {
                let s = x.as_str().unwrap();
                (s.chars().next().unwrap(), s[1..].parse().unwrap())
            }).collect(),
            pipe: match v["pipe"].as_str().unwrap() {
                "Compact" => Pipe::Compact,
                "Replace" => Pipe::Replace,
                _ => Pipe::CompactReplace,
            },
            layout: Layout::from_json(&v["layout"]),
        }
    }
    fn describe(&self, s: &Shape, ints: &[i64], _b: &[bool]) -> Value {
        let mut d = crate::props::c01::describe_inputs(s.n, s.m, s.layout, ints);
        d["script"] = json!(s.script.iter().map(|(k, l)| format!("{}{}", k, l)).collect::<Vec<_>>());
        d
    }
    fn meta(&self, tier: Tier) -> Meta {
        Meta {
            functions: vec![
                "similar::algorithms::Compact::{equal,delete,insert,finish}, cleanup_diff_ops, shift_diff_ops_up, shift_diff_ops_down",
                "similar::algorithms::Replace::{equal,delete,insert,replace,finish,flush_eq,flush_del_ins}",
                "similar::DiffOp::{apply_to_hook, grow_left/right, shrink_left/right, shift_left/right, is_empty}",
                "similar::algorithms::utils::{common_prefix_len, common_suffix_len}",
            ],
            bounds: format!("all valid scripts over sequences of lengths n,m in 0..={}: every lattice path (0,0)->(n,m) in unit steps equal/delete/insert, cut into runs in every way (split Equal runs, insert-before-delete, alternating runs), with exact carried indices; items symbolic, only the equalities stated by the script's Equal runs are assumed; pipelines Compact, Replace, Compact<Replace>, and one Replace object fed the script twice in a row; plus offset-lookup / padded layouts for n+m<=5; plus, for each long structured input of common.rs::long_layouts (about 30 (thorough 53) inputs of 40..600 items a side, some as sub-ranges at unequal offsets), up to seven valid scripts (common prefix / suffix as Equal runs around one Delete+Insert in both orders, the same cut into chunks of 7 / 5, prefix only, suffix only, a longest-common-subsequence alignment as runs and in unit steps)", match tier { Tier::Quick => 5, Tier::Thorough => 6 }),
            outside: "longer sequences; scripts whose carried indices are not exact (the adapters' input contract)".into(),
            assumptions: vec!["the input script is valid: positive lengths, exact positions, Equal runs pair equal items (assumed into the path condition before the run)".into()],
            required_witnesses: if self.0 { vec!["paths_that_took_a_compaction_swap", "scripts_with_split_equal_runs", "long_structured_paths"] } else { vec!["paths_that_took_a_compaction_swap", "scripts_with_insert_before_delete", "scripts_with_split_equal_runs", "paths_with_replace_call", "long_structured_paths", "paths_with_a_reused_adapter"] },
            rule: "one state = one explored path = one script skeleton x one equality pattern of the items consistent with it".into(),
        }
    }
}
