//! C18 — get_close_matches equals exhaustive ranking by similarity ratio.
use super::{Meta, Prop, Tier};
use crate::claim;
use crate::common::*;
use crate::engine::{self, F};
use crate::sym::Sym;
use crate::symtxt::{self, Class, SymTxt};
use serde_json::{json, Value};
use similar::get_close_matches;
use std::cmp::Ordering;

#[derive(Clone, Debug)]
pub struct Shape {
    /// many-candidates family: a word of 4 different characters and 47 candidates (the word,
    /// 24 single substitutions, 15 single insertions, 4 single deletions, 3 unrelated strings)
    /// over a pool of characters with a fixed strict order, passed in a scrambled order: whole
    /// classes of equal ratio, more matches than any small-sort threshold
    pub many: bool,
    /// block family: Some((word blocks, candidate blocks, block length)): both strings are
    /// sequences of blocks over 3 block types (all characters of different types different), so
    /// longer strings with repeated stretches, rotations and unique markers are covered
    pub blocks: Option<([u8; 5], [u8; 5], usize)>,
    /// exact-cutoff family: Some(k): the word has `word` pairwise different characters, the single
    /// candidate consists of the first k characters of the word followed by different fresh
    /// characters (so its ratio is exactly 2k/(a+b)); all characters assumed pairwise different
    pub shared_prefix: Option<usize>,
    /// which string has a two-unit last character: 0 = none, 1 = the word, 2+j = candidate j
    pub wide: usize,
    /// near-identical long candidates: Some word of `near` pairwise different characters against the
    /// word without its last / first character, with one more character, and with one replaced
    pub near: usize,
    pub word: usize,
    pub cands: Vec<usize>,
    pub n: usize,
    pub cutoff_bits: u32,
}
pub struct C18;

fn ratio(l: usize, a: usize, b: usize) -> f32 {
    if a + b == 0 {
        1.0
    } else {
        2.0 * l as f32 / (a + b) as f32
    }
}

fn cutoffs(word: usize, cands: &[usize]) -> Vec<u32> {
    let mut v: Vec<u32> = vec![0.0f32.to_bits(), 1.0f32.to_bits(), 0.5f32.to_bits()];
    for &b in cands {
        for k in 0..=word.min(b) {
            let r = ratio(k, word, b);
            let bits = r.to_bits();
            v.push(bits);
            if bits > 0 {
                v.push(bits - 1);
            }
            if r < 1.0 {
                v.push(bits + 1);
            }
        }
    }
    v.sort();
    v.dedup();
    v
}

/// reference LCS over character tokens (a token = 1 or 2 units), decided by the solver
fn ref_lcs_tokens(a: &[&SymTxt], b: &[&SymTxt]) -> usize {
    let (n, m) = (a.len(), b.len());
    let mut t = vec![vec![0usize; m + 1]; n + 1];
    for i in (0..n).rev() {
        for j in (0..m).rev() {
            let (x, y) = (a[i].chars(), b[j].chars());
            let e = x.len() == y.len() && x.iter().zip(y).all(|(p, q)| p.0 == q.0 || engine::decide(engine::Atom::eq(p.0, q.0)));
            t[i][j] = if e { t[i + 1][j + 1] + 1 } else { t[i + 1][j].max(t[i][j + 1]) };
        }
    }
    t[0][0]
}

fn txt_eq(a: &[Sym], b: &[Sym]) -> F {
    if a.len() != b.len() {
        return F::not(F::True);
    }
    F::And(a.iter().zip(b).map(|(x, y)| F::eq(x.0, y.0)).collect())
}

impl Prop for C18 {
    type Shape = Shape;
    fn id(&self) -> &'static str {
        "C18"
    }
    fn shapes(&self, tier: Tier) -> Vec<Shape> {
        let (maxlen, maxc) = match tier {
            Tier::Quick => (3, 2),
            Tier::Thorough => (3, 3),
        };
        let mut lists: Vec<Vec<usize>> = vec![vec![]];
        let mut cur: Vec<Vec<usize>> = vec![vec![]];
        for _ in 0..maxc {
            let mut nx = vec![];
            for c in &cur {
                for l in 0..=maxlen {
                    let mut d = c.clone();
                    d.push(l);
                    nx.push(d);
                }
            }
            lists.extend(nx.iter().cloned());
            cur = nx;
        }
        let mut v = vec![];
        for word in 0..=maxlen {
            for cands in &lists {
                let total: usize = word + cands.iter().sum::<usize>();
                if total > (match tier { Tier::Quick => 7, Tier::Thorough => 9 }) {
                    continue;
                }
                for n in 0..=3usize {
                    if n > cands.len() + 1 {
                        continue;
                    }
                    for c in cutoffs(word, cands) {
                        v.push(Shape { near: 0, many: false, blocks: None, shared_prefix: None, wide: 0, word, cands: cands.clone(), n, cutoff_bits: c });
                        // variants in which one string ends in a character that occupies two
                        // units (string length in units != number of characters)
                        if n >= 1 && total <= 6 {
                            if word > 0 {
                                v.push(Shape { near: 0, many: false, blocks: None, shared_prefix: None, wide: 1, word, cands: cands.clone(), n, cutoff_bits: c });
                            }
                            for (j, l) in cands.iter().enumerate() {
                                if *l > 0 {
                                    v.push(Shape { near: 0, many: false, blocks: None, shared_prefix: None, wide: 2 + j, word, cands: cands.clone(), n, cutoff_bits: c });
                                }
                            }
                        }
                    }
                }
            }
        }
        // longer strings with a cutoff hit exactly (and one ulp off): one candidate whose ratio is 2k/(a+b)
        let top = match tier {
            Tier::Quick => 14,
            Tier::Thorough => 30,
        };
        for a in 1..=top {
            for b in 1..=top {
                for k in 0..=a.min(b) {
                    let r = ratio(k, a, b).to_bits();
                    for c in [r, r.saturating_sub(1), if ratio(k, a, b) < 1.0 { r + 1 } else { r }] {
                        v.push(Shape { near: 0, many: false, blocks: None, shared_prefix: Some(k), wide: 0, word: a, cands: vec![b], n: 1, cutoff_bits: c });
                    }
                }
            }
        }
        // block-structured strings of up to 4 blocks of 4 (3 / 4) characters: 13..16 characters a side
        for l in block_layouts(4, 4) {
            if let Layout::Blocks { old, new, blen } = l {
                let (a, b) = layout_lens(&l, 0, 0);
                if a < 8 || b < 8 {
                    continue;
                }
                if tier == Tier::Quick && (old.iter().filter(|x| **x != 255).count() + new.iter().filter(|x| **x != 255).count()) % 2 == 1 {
                    continue;
                }
                for c in [0.0f32.to_bits(), 0.5f32.to_bits()] {
                    v.push(Shape { near: 0, many: false, blocks: Some((old, new, blen)), shared_prefix: None, wide: 0, word: a, cands: vec![b], n: 1, cutoff_bits: c });
                }
            }
        }
        for n in [0usize, 1, 10, 30, 33, 44, 50] {
            for c in [0.6f32.to_bits(), 0.75f32.to_bits(), 0.8f32.to_bits()] {
                v.push(Shape { near: 0, many: true, blocks: None, shared_prefix: None, wide: 0, word: 4, cands: vec![], n, cutoff_bits: c });
            }
        }
        // long near-identical candidates: ratios that differ by less than 1e-4
        for k in (match tier { Tier::Quick => (70usize..=112).collect::<Vec<_>>(), Tier::Thorough => (60usize..=200).collect() }) {
            for n in [1usize, 2, 4] {
                v.push(Shape { near: k, many: false, blocks: None, shared_prefix: None, wide: 0, word: k, cands: vec![], n, cutoff_bits: 0.6f32.to_bits() });
            }
        }
        v.dedup_by(|x, y| x.shared_prefix.is_some() && x.shared_prefix == y.shared_prefix && x.word == y.word && x.cands == y.cands && x.cutoff_bits == y.cutoff_bits);
        v
    }
    fn run(&self, s: &Shape) -> String {
        reset_hooks();
        symtxt::reset();
        let cutoff = f32::from_bits(s.cutoff_bits);
        // a string of `l` characters; if `wide`, its last character occupies two units
        let mk = |l: usize, wide: bool| -> Vec<Sym> {
            let mut v = vec![];
            for i in 0..l {
                if wide && i + 1 == l {
                    v.push(symtxt::fresh_char(Class::Lead));
                    v.push(symtxt::fresh_char(Class::Cont));
                } else {
                    v.push(symtxt::fresh_char(Class::Ord));
                }
            }
            v
        };
        let mut word: Vec<Sym> = if s.blocks.is_some() { vec![] } else { mk(s.word, s.wide == 1) };
        let mut cands: Vec<Vec<Sym>> = if s.blocks.is_some() { vec![vec![]] } else { s.cands.iter().enumerate().map(|(j, &l)| mk(l, s.wide == 2 + j)).collect() };
        if let Some((wb, cb, blen)) = s.blocks {
            let pool: Vec<Vec<Sym>> = (0..3).map(|t| (0..block_type_len(t, blen)).map(|_| symtxt::fresh_char(Class::Ord)).collect()).collect();
            let ids: Vec<u32> = pool.iter().flatten().map(|x| x.0).collect();
            engine::assume(&F::Distinct(ids.clone()));
            for id in ids {
                engine::set_hash_class(id, id as u64);
            }
            let build = |bs: &[u8; 5]| -> Vec<Sym> { bs.iter().filter(|b| **b != 255).flat_map(|b| pool[*b as usize].iter().copied()).collect() };
            word = build(&wb);
            cands[0] = build(&cb);
            engine::witness("block_structured_string_paths");
        }
        if s.many {
            // pool in a fixed strict order f0 < w0 < f1 < w1 < f2 < w2 < f3 < w3 < f4 < f5
            let pool: Vec<Sym> = (0..10).map(|_| symtxt::fresh_char(Class::Ord)).collect();
            let mut chain = vec![];
            for i in 1..pool.len() {
                chain.push(F::A(engine::Atom::Lt(pool[i - 1].0, pool[i].0)));
            }
            engine::assume(&F::And(chain));
            engine::assume(&F::Distinct(pool.iter().map(|x| x.0).collect()));
            for x in &pool {
                engine::set_hash_class(x.0, x.0 as u64);
            }
            let w: Vec<Sym> = vec![pool[1], pool[3], pool[5], pool[7]];
            let f: Vec<Sym> = vec![pool[0], pool[2], pool[4], pool[6], pool[8], pool[9]];
            let mut cs: Vec<Vec<Sym>> = vec![w.clone()];
            for pos in 0..4 {
                for fj in &f {
                    let mut c = w.clone();
                    c[pos] = *fj;
                    cs.push(c);
                }
            }
            for pos in 0..5 {
                for fj in &f[..3] {
                    let mut c = w.clone();
                    c.insert(pos, *fj);
                    cs.push(c);
                }
            }
            for pos in 0..4 {
                let mut c = w.clone();
                c.remove(pos);
                cs.push(c);
            }
            cs.push(vec![f[0], f[1], f[2], f[3]]);
            cs.push(vec![f[4], f[5]]);
            cs.push(vec![f[5], f[4], f[3], f[2], f[1], f[0], f[5]]);
            // scrambled input order
            let len = cs.len();
            cands = (0..len).map(|i| cs[(i * 17 + 5) % len].clone()).collect();
            word = w;
            engine::witness("many_candidates_paths");
        }
        if s.near > 0 {
            let w: Vec<Sym> = (0..s.near).map(|_| symtxt::fresh_char(Class::Ord)).collect();
            let f: Vec<Sym> = (0..2).map(|_| symtxt::fresh_char(Class::Ord)).collect();
            let ids: Vec<u32> = w.iter().chain(f.iter()).map(|x| x.0).collect();
            engine::assume(&F::Distinct(ids.clone()));
            for id in ids {
                engine::set_hash_class(id, id as u64);
            }
            let mut longer = w.clone();
            longer.push(f[0]);
            let mut repl = w.clone();
            repl[s.near / 2] = f[1];
            cands = vec![w[..s.near - 1].to_vec(), repl, longer, w[1..].to_vec(), w[..s.near - 2].to_vec()];
            word = w;
            engine::witness("near_identical_long_candidates_paths");
        }
        if let Some(k) = s.shared_prefix {
            // candidate 0 = first k characters of the word + fresh ones; everything else pairwise different
            let fresh: Vec<Sym> = cands[0][k..].to_vec();
            let ids: Vec<u32> = word.iter().chain(fresh.iter()).map(|x| x.0).collect();
            engine::assume(&F::Distinct(ids.clone()));
            for id in ids {
                engine::set_hash_class(id, id as u64);
            }
            let mut c0: Vec<Sym> = word[..k].to_vec();
            c0.extend(fresh);
            cands[0] = c0;
            engine::witness("exact_cutoff_family_paths");
        }
        use similar::DiffableStr;
        let wtok: Vec<&SymTxt> = SymTxt::new(&word).tokenize_chars();
        let cand_refs: Vec<&SymTxt> = cands.iter().map(|c| SymTxt::new(c)).collect();
        let got: Vec<&SymTxt> = get_close_matches(SymTxt::new(&word), &cand_refs, s.n, cutoff);
        // reference: exhaustive ranking
        let mut scored: Vec<(f32, usize)> = vec![];
        for (i, c) in cands.iter().enumerate() {
            let ctok: Vec<&SymTxt> = SymTxt::new(c).tokenize_chars();
            let l = ref_lcs_tokens(&wtok, &ctok);
            let r = ratio(l, wtok.len(), ctok.len());
            if r >= cutoff {
                scored.push((r, i));
            }
        }
        scored.sort_by(|x, y| match y.0.partial_cmp(&x.0).unwrap() {
            Ordering::Equal => SymTxt::new(&cands[x.1]).cmp(SymTxt::new(&cands[y.1])),
            o => o,
        });
        let expect: Vec<usize> = scored.iter().take(s.n).map(|x| x.1).collect();
        claim!(
            got.len() == expect.len(),
            "get_close_matches returned {} entries, the exhaustive ranking has {} (ratios>=cutoff {:?}, n={}, cutoff={})",
            got.len(), expect.len(), scored, s.n, cutoff
        );
        let mut used = vec![false; cands.len()];
        for (k, g) in got.iter().enumerate() {
            // must be one of the candidates passed in (by identity), each at most once
            let idx = cand_refs.iter().enumerate().position(|(i, c)| !used[i] && c.ptr_range() == g.ptr_range() && c.chars().as_ptr() == g.chars().as_ptr());
            claim!(idx.is_some(), "result entry {} is not one of the (unused) candidates", k);
            used[idx.unwrap()] = true;
            engine::must_hold(
                &txt_eq(g.chars(), &cands[expect[k]]),
                &format!("result entry {} differs from entry {} of the exhaustive ranking (candidate #{}; ranking {:?}, cutoff {})", k, k, expect[k], scored, cutoff),
            );
        }
        if scored.len() < cands.len() {
            engine::witness("paths_with_a_candidate_below_the_cutoff");
        }
        if scored.len() >= 2 {
            engine::witness("paths_with_two_or_more_matches");
            if scored[0].0 == scored[1].0 {
                engine::witness("paths_with_a_ratio_tie");
            }
        }
        if scored.iter().any(|x| x.0 == cutoff) {
            engine::witness("paths_with_a_ratio_exactly_at_the_cutoff");
        }
        if scored.len() > s.n {
            engine::witness("paths_truncated_by_n");
        }
        let obs = format!("{:?}", expect);
        engine::offer_sample(|| json!({"shape": self.shape_json(s), "path_condition": engine::path_condition(), "ranking (ratio, candidate index)": format!("{:?}", scored), "returned_candidates": obs.clone()}));
        obs
    }
    fn cost(&self, s: &Shape) -> u64 {
        (s.word + s.cands.iter().sum::<usize>()) as u64
    }
    fn shape_json(&self, s: &Shape) -> Value {
        json!({"near": s.near, "many_candidates": s.many, "blocks": s.blocks.map(|(a, b, l)| json!({"word": a.to_vec(), "candidate": b.to_vec(), "blen": l})), "shared_prefix": s.shared_prefix, "wide_last_char_in": s.wide, "word_len": s.word, "candidate_lens": s.cands, "n": s.n, "cutoff_bits": s.cutoff_bits, "cutoff": f32::from_bits(s.cutoff_bits)})
    }
    fn shape_from(&self, v: &Value) -> Shape {
        Shape {
            near: v["near"].as_u64().unwrap_or(0) as usize,
            many: v["many_candidates"].as_bool().unwrap_or(false),
            blocks: if v["blocks"].is_object() {
                let arr = |k: &str| -> [u8; 5] {
                    let mut a = [255u8; 5];
                    for (i, x) in v["blocks"][k].as_array().unwrap().iter().enumerate() {
                        a[i] = x.as_u64().unwrap() as u8;
                    }
                    a
                };
                Some((arr("word"), arr("candidate"), v["blocks"]["blen"].as_u64().unwrap() as usize))
            } else {
                None
            },
            shared_prefix: v["shared_prefix"].as_u64().map(|x| x as usize),
            wide: v["wide_last_char_in"].as_u64().unwrap_or(0) as usize,
            word: v["word_len"].as_u64().unwrap() as usize,
            cands: v["candidate_lens"].as_array().unwrap().iter().map(|x| x.as_u64().unwrap() as usize).collect(),
            n: v["n"].as_u64().unwrap() as usize,
            cutoff_bits: v["cutoff_bits"].as_u64().unwrap() as u32,
        }
    }
    fn describe(&self, s: &Shape, ints: &[i64], _b: &[bool]) -> Value {
        let mut it = ints.iter();
        let word: Vec<i64> = it.by_ref().take(s.word + (s.wide == 1 && s.word > 0) as usize).cloned().collect();
        let cands: Vec<Vec<i64>> = s.cands.iter().enumerate().map(|(j, &l)| it.by_ref().take(l + (s.wide == 2 + j && l > 0) as usize).cloned().collect()).collect();
        json!({"word_chars": word, "candidates_chars": cands, "n": s.n, "cutoff": f32::from_bits(s.cutoff_bits)})
    }
    fn meta(&self, tier: Tier) -> Meta {
        Meta {
            functions: vec![
                "similar::get_close_matches::<SymTxt> (BinaryHeap, Reverse, score quantisation)",
                "similar::text::utils::{upper_seq_ratio, QuickSeqRatio::{new, calc}} (two std HashMaps)",
                "similar::TextDiff::{from_slices, ratio}, similar::get_diff_ratio, capture_diff_deadline(Myers) + IdentifyDistinct not reached (<100 tokens)",
                "Ord/Eq/Hash of the string type (SymTxt, decided by z3)",
            ],
            bounds: format!("word of 0..={l} characters, 0..={c} candidates of 0..={l} characters each (empty and duplicate candidates included; all characters symbolic; for up to 6 characters in total also variants in which the last character of the word or of one candidate occupies two units, so that string length and character count differ), n in 0..=3 (at most {t} characters in word and candidates together), plus a many-candidates family (a word of 4 different characters and 47 candidates - the word, all 24 single substitutions, 15 single insertions, 4 single deletions, 3 unrelated strings - over a pool of characters in a fixed strict order, passed in a scrambled order; n in 0, 1, 10, 30, 33, 44, 50; cutoffs 0.6, 0.75, 0.8); plus block-structured strings (up to 4 blocks of 4 / 3 / 4 characters a side over 3 block types, i.e. up to 16 characters with repeated stretches, rotations and unique markers; cutoffs 0 and 0.5) and a family of longer strings (word of up to 14 / 30 pairwise different characters, one candidate sharing exactly its first k characters, cutoff = the candidate's ratio 2k/(a+b) and one ulp below / above); cutoff in the finite set of f32 values at which the result can change: every attainable ratio 2k/(a+b), each also one ulp below and above, plus 0, 0.5 and 1", l = match tier { Tier::Quick => 3, Tier::Thorough => 3 }, c = match tier { Tier::Quick => 2, Tier::Thorough => 3 }, t = match tier { Tier::Quick => 7, Tier::Thorough => 9 }),
            outside: "plus (stated here, part of the bounds) near-identical long candidates: a word of k = 70..=112 (thorough 60..=200) pairwise different characters against the word without its last / first / last two characters, with one character appended and with one replaced - ratios less than 1e-4 apart - n in 1, 2, 4, cutoff 0.6; OUTSIDE: other long words / more candidates; cutoffs outside [0,1]; NaN; the f32 quantisation regime of very long strings; str/[u8] tokenize_chars (C06)".into(),
            assumptions: vec!["the reference ranking is computed by the harness from a solver-decided LCS and the same f32 formula".into(), "among candidates with equal content the order is unspecified: entries are compared by content, and each returned reference must be a distinct candidate passed in".into()],
            required_witnesses: vec!["many_candidates_paths", "block_structured_string_paths", "exact_cutoff_family_paths", "near_identical_long_candidates_paths", "paths_with_a_candidate_below_the_cutoff", "paths_with_two_or_more_matches", "paths_with_a_ratio_tie", "paths_with_a_ratio_exactly_at_the_cutoff", "paths_truncated_by_n"],
            rule: "one state = one explored path (equality/order pattern of all characters) for one (lengths, n, cutoff) shape".into(),
        }
    }
}
