//! C16 — inline changes re-split each line losslessly; only changed words are emphasised.
use super::{Meta, Prop, Tier};
use crate::claim;
use crate::common::*;
use crate::engine;
use crate::symtxt::{self, Class, SymTxt};
use serde_json::{json, Value};
use similar::{Algorithm, Change, ChangeTag, DiffTag, DiffableStr, TextDiff};

#[derive(Clone, Copy, Debug, PartialEq, Eq)]
pub enum Dl {
    /// iter_inline_changes_deadline(op, None)
    NoDeadline,
    /// iter_inline_changes_deadline(op, Some(..)) with a clock that has already expired
    Expired,
    /// iter_inline_changes(op) (built-in 500 ms deadline) under the symbolic clock
    DefaultSymbolicClock,
}
impl Dl {
    fn name(&self) -> &'static str {
        match self {
            Dl::NoDeadline => "none",
            Dl::Expired => "expired",
            Dl::DefaultSymbolicClock => "default+symbolic-clock",
        }
    }
    fn from(s: &str) -> Dl {
        match s {
            "none" => Dl::NoDeadline,
            "expired" => Dl::Expired,
            _ => Dl::DefaultSymbolicClock,
        }
    }
}

#[derive(Clone, Debug)]
pub struct Shape {
    pub old: String,
    pub new: String,
    pub alg: Algorithm,
    pub dl: Dl,
    /// TextDiffConfig::newline_terminated override (None = the default for line diffs)
    pub nl: Option<bool>,
}
pub struct C16;

const LINE_SHAPES: [&str; 4] = ["x", "x x", "x.x", "x x x"];

fn texts(max_lines: usize, shapes: &[&str]) -> Vec<String> {
    let mut out = vec![String::new()];
    let mut cur: Vec<Vec<&str>> = vec![vec![]];
    for _ in 0..max_lines {
        let mut nx = vec![];
        for c in &cur {
            for s in shapes {
                let mut d = c.clone();
                d.push(*s);
                nx.push(d);
            }
        }
        for ls in &nx {
            for (term, last_unterminated) in [("\n", false), ("\n", true), ("\r\n", false), ("\r", false)] {
                let mut t = String::new();
                for (i, l) in ls.iter().enumerate() {
                    t.push_str(l);
                    if !(last_unterminated && i + 1 == ls.len()) {
                        t.push_str(term);
                    }
                }
                out.push(t);
            }
        }
        cur = nx;
    }
    out
}

impl Prop for C16 {
    type Shape = Shape;
    fn id(&self) -> &'static str {
        "C16"
    }
    fn shapes(&self, tier: Tier) -> Vec<Shape> {
        let (ml, shapes): (usize, &[&str]) = match tier {
            Tier::Quick => (2, &LINE_SHAPES[..3]),
            Tier::Thorough => (3, &LINE_SHAPES[..]),
        };
        let mut ts = texts(ml, shapes);
        // three lines on one side (a word run of the inner diff can then cross two line ends)
        for t in ["x\nx\nx\n", "x x\nx\nx\n", "x\nx\nx x\n", "x\nx\nx", "x\r\nx\r\nx\r\n"] {
            if !ts.iter().any(|x| x == t) {
                ts.push(t.to_string());
            }
        }
        let mut v = vec![];
        let words = |t: &str| t.chars().filter(|c| *c == 'x').count();
        let (max_words, max_words_clock) = match tier {
            Tier::Quick => (6, 4),
            Tier::Thorough => (7, 5),
        };
        for o in &ts {
            for n in &ts {
                let w = words(o) + words(n);
                if w > max_words {
                    continue;
                }
                for alg in ALGS {
                    for dl in [Dl::NoDeadline, Dl::Expired, Dl::DefaultSymbolicClock] {
                        if dl == Dl::DefaultSymbolicClock && w > max_words_clock {
                            continue;
                        }
                        if w == max_words && (alg != Algorithm::Myers || dl != Dl::NoDeadline) {
                            continue;
                        }
                        v.push(Shape { old: o.clone(), new: n.clone(), alg, dl, nl: None });
                        // the option only changes how the diff is rendered; the inline expansion must not depend on it
                        if dl == Dl::NoDeadline && alg == Algorithm::Myers {
                            v.push(Shape { old: o.clone(), new: n.clone(), alg, dl, nl: Some(false) });
                        }
                    }
                }
            }
        }
        // a line longer than 65 536 units: word offsets inside a line beyond 16 bits ('L' = one
        // word of 65 541 units shared by both texts)
        for (o, n) in [("L x\n", "L x\n"), ("x L x x\n", "x L x x\n"), ("x\nL.x", "L.x")] {
            v.push(Shape { old: o.to_string(), new: n.to_string(), alg: Algorithm::Myers, dl: Dl::NoDeadline, nl: None });
        }
        // the line-count gate (upper_seq_ratio < 0.5): one line against four
        for (o, n) in [("x x\n", "x x\nx\nx\nx\n"), ("x\nx\nx\nx x\n", "x x\n"), ("x x\n", "x\nx\nx"), ("x.x", "x\nx\nx\nx.x")] {
            for alg in ALGS {
                for dl in [Dl::NoDeadline, Dl::Expired] {
                    v.push(Shape { old: o.to_string(), new: n.to_string(), alg, dl, nl: None });
                }
            }
        }
        v
    }
    fn run(&self, s: &Shape) -> String {
        reset_hooks();
        symtxt::reset();
        let old = symtxt::text_from_pattern(&s.old);
        let new = symtxt::text_from_pattern(&s.new);
        let (ot, nt) = (SymTxt::new(&old), SymTxt::new(&new));
        let diff = {
            let mut c = TextDiff::configure();
            c.algorithm(s.alg);
            if let Some(x) = s.nl {
                c.newline_terminated(x);
                engine::witness("paths_with_newline_terminated_overridden");
            }
            c.diff_lines(ot, nt)
        };
        let ops = diff.ops().to_vec();
        let mut obs = String::new();
        for op in &ops {
            let plain: Vec<Change<&SymTxt>> = diff.iter_changes(op).collect();
            let inl: Vec<similar::InlineChange<SymTxt>> = match s.dl {
                Dl::NoDeadline => diff.iter_inline_changes_deadline(op, None).collect(),
                Dl::Expired => {
                    similar::verif_clock::install(Some(Box::new(|_| true)));
                    let r = diff.iter_inline_changes_deadline(op, any_instant()).collect();
                    similar::verif_clock::install(None);
                    r
                }
                Dl::DefaultSymbolicClock => {
                    let clock = install_clock();
                    let r = diff.iter_inline_changes(op).collect();
                    similar::verif_clock::install(None);
                    if clock.fired_at.get().is_some() {
                        engine::witness("paths_where_the_inline_deadline_fired");
                    }
                    if clock.probes.get() > 0 {
                        engine::witness("paths_where_the_default_inline_deadline_was_consulted");
                    }
                    r
                }
            };
            claim!(
                plain.len() == inl.len(),
                "inline expansion of {:?} yields {} changes, plain expansion {}",
                op, inl.len(), plain.len()
            );
            let mut any_emph = false;
            for (k, (p, i)) in plain.iter().zip(inl.iter()).enumerate() {
                claim!(
                    p.tag() == i.tag() && p.old_index() == i.old_index() && p.new_index() == i.new_index(),
                    "inline change #{} of {:?} is {:?}/{:?}/{:?}, plain change is {:?}/{:?}/{:?}",
                    k, op, i.tag(), i.old_index(), i.new_index(), p.tag(), p.old_index(), p.new_index()
                );
                let line = p.value();
                let (lp, ll) = line.ptr_range();
                let mut off = 0usize;
                for (emph, seg) in i.values() {
                    let (sp, sl) = seg.ptr_range();
                    claim!(
                        sp == lp + off * std::mem::size_of::<crate::sym::Sym>(),
                        "segments of inline change #{} of {:?} are not consecutive sub-slices of its line",
                        k, op
                    );
                    off += sl;
                    if *emph {
                        any_emph = true;
                        claim!(
                            op.tag() == DiffTag::Replace && i.tag() != ChangeTag::Equal,
                            "emphasised segment in a {:?} change of a {:?} op",
                            i.tag(), op.tag()
                        );
                        claim!(
                            !seg.chars().iter().any(|c| matches!(symtxt::class_of(*c), Class::Lf | Class::Cr)),
                            "an emphasised segment contains a line-break character (change #{} of {:?})",
                            k, op
                        );
                    }
                }
                claim!(off == ll, "segments of inline change #{} of {:?} cover {} of the line's {} characters", k, op, off, ll);
                claim!(
                    i.missing_newline() == !line.ends_with_newline(),
                    "missing_newline() of inline change #{} of {:?} disagrees with its line",
                    k, op
                );
            }
            if op.tag() == DiffTag::Replace {
                engine::witness("replace_ops_expanded");
                if any_emph && plain.iter().any(|p| p.value().chars().len() > 65_536) {
                    engine::witness("replace_ops_in_a_line_longer_than_65536_units");
                }
                if any_emph {
                    engine::witness("replace_ops_with_emphasis");
                } else {
                    engine::witness("replace_ops_below_a_ratio_gate_or_without_common_words");
                }
            }
            obs.push_str(&format!("{:?};", inl.iter().map(|c| (c.tag(), c.values().iter().map(|(e, v)| (*e, v.chars().len())).collect::<Vec<_>>())).collect::<Vec<_>>()));
        }
        engine::offer_sample(|| json!({"shape": self.shape_json(s), "path_condition": engine::path_condition(), "ops": ops_json(&ops), "inline": obs.clone()}));
        obs
    }
    fn cost(&self, s: &Shape) -> u64 {
        (s.old.len() + s.new.len()) as u64
    }
    fn shape_json(&self, s: &Shape) -> Value {
        json!({"old": s.old, "new": s.new, "alg": alg_name(s.alg), "deadline": s.dl.name(), "newline_terminated": s.nl})
    }
    fn shape_from(&self, v: &Value) -> Shape {
        Shape { old: v["old"].as_str().unwrap().into(), new: v["new"].as_str().unwrap().into(), alg: alg_from(v["alg"].as_str().unwrap()), dl: Dl::from(v["deadline"].as_str().unwrap()), nl: v["newline_terminated"].as_bool() }
    }
    fn describe(&self, s: &Shape, ints: &[i64], b: &[bool]) -> Value {
        json!({"old_pattern": s.old, "new_pattern": s.new, "character_values": ints, "clock": b})
    }
    fn meta(&self, tier: Tier) -> Meta {
        Meta {
            functions: vec![
                "similar::TextDiff::{iter_inline_changes, iter_inline_changes_deadline}",
                "similar::text::inline::{iter_inline_changes, MultiLookup::{new, get_original_slices, Index}, push_values, InlineChange::{values, missing_newline, From<Change>}}",
                "similar::text::utils::upper_seq_ratio, similar::get_diff_ratio (0.5 gates, real f32)",
                "capture_diff_deadline(Patience, MultiLookup, ..) with the H1 clock",
            ],
            bounds: format!("(at most {} symbolic words in both texts together, {} under the symbolic clock) line texts of 0..={} lines per side built from the line shapes {:?} (words symbolic, separators space / punctuation), LF / CRLF / lone CR / unterminated last line, plus 1-against-4-line shapes for the line-count gate; x 3 algorithms x inline deadline {{None, already expired, built-in 500 ms under the symbolic clock}}; Myers without deadline also with TextDiffConfig::newline_terminated(false); plus three texts with a line of more than 65 536 units (one shared word of 65 541 units, the words after it symbolic), Myers, no deadline", match tier { Tier::Quick => 6, Tier::Thorough => 7 }, match tier { Tier::Quick => 4, Tier::Thorough => 5 }, match tier { Tier::Quick => 2, Tier::Thorough => 3 }, match tier { Tier::Quick => &LINE_SHAPES[..3], Tier::Thorough => &LINE_SHAPES[..] }),
            outside: "the unicode word segmentation of real str / [u8] (third-party code; SymTxt's word tokenizer stands in); longer lines and texts".into(),
            assumptions: vec!["feature set text+inline+unicode+bytes; with `unicode` the inline code calls tokenize_unicode_words, which for SymTxt is the harness tokenizer (runs of ordinary characters, whitespace runs, single punctuation)".into()],
            required_witnesses: vec!["replace_ops_expanded", "replace_ops_with_emphasis", "replace_ops_below_a_ratio_gate_or_without_common_words", "paths_where_the_inline_deadline_fired", "paths_where_the_default_inline_deadline_was_consulted", "paths_with_newline_terminated_overridden", "replace_ops_in_a_line_longer_than_65536_units"],
            rule: "one state = one explored path (equality pattern of the characters x expiry point)".into(),
        }
    }
}
