//! C02, C09, C11 — the captured op list (capture pipeline = Compact + Replace + Capture)
//! C03 — minimality of Myers and LCS (raw and captured)
use super::{Meta, Prop, Tier};
use crate::claim;
use crate::common::*;
use crate::engine::{self, F};
use crate::props::c01::describe_inputs;
use serde_json::{json, Value};
use similar::algorithms::{self, Capture, Compact, Replace};
use similar::{capture_diff, capture_diff_deadline, capture_diff_slices, capture_diff_slices_deadline, get_diff_ratio, Algorithm, DiffOp, DiffTag};

#[derive(Clone, Copy, Debug, PartialEq, Eq)]
pub enum Which {
    C02,
    C03,
    C09,
    C11,
}

#[derive(Clone, Copy, Debug, PartialEq, Eq)]
pub enum CapEntry {
    CaptureDiff,
    CaptureDiffDeadline,
    CaptureSlices,
    CaptureSlicesDeadline,
    /// Compact<Replace<Capture>> assembled by hand around algorithms::diff (as documented)
    Manual,
    /// the same with a borrowed capture: Compact<Replace<&mut Capture>> (the `&mut D` hook impl)
    ManualBorrowed,
    /// TextDiff::from_slices(..).ops() over one-character SymTxt tokens
    TextFromSlices,
    /// TextDiff::configure().algorithm(a).deadline(..).diff_slices(..).ops()
    TextConfigDeadline,
}
impl CapEntry {
    fn name(&self) -> &'static str {
        match self {
            CapEntry::CaptureDiff => "capture_diff",
            CapEntry::CaptureDiffDeadline => "capture_diff_deadline",
            CapEntry::CaptureSlices => "capture_diff_slices",
            CapEntry::CaptureSlicesDeadline => "capture_diff_slices_deadline",
            CapEntry::Manual => "Compact<Replace<Capture>>+algorithms::diff",
            CapEntry::ManualBorrowed => "Compact<Replace<&mut Capture>>+algorithms::diff",
            CapEntry::TextFromSlices => "TextDiff::from_slices",
            CapEntry::TextConfigDeadline => "TextDiffConfig::deadline+diff_slices",
        }
    }
    fn from(s: &str) -> CapEntry {
        match s {
            "capture_diff" => CapEntry::CaptureDiff,
            "capture_diff_deadline" => CapEntry::CaptureDiffDeadline,
            "capture_diff_slices" => CapEntry::CaptureSlices,
            "capture_diff_slices_deadline" => CapEntry::CaptureSlicesDeadline,
            "TextDiff::from_slices" => CapEntry::TextFromSlices,
            "Compact<Replace<&mut Capture>>+algorithms::diff" => CapEntry::ManualBorrowed,
            "TextDiffConfig::deadline+diff_slices" => CapEntry::TextConfigDeadline,
            _ => CapEntry::Manual,
        }
    }
    fn takes_deadline(&self) -> bool {
        matches!(self, CapEntry::CaptureDiffDeadline | CapEntry::CaptureSlicesDeadline | CapEntry::TextConfigDeadline)
    }
    fn slices_only(&self) -> bool {
        matches!(self, CapEntry::CaptureSlices | CapEntry::CaptureSlicesDeadline | CapEntry::TextFromSlices | CapEntry::TextConfigDeadline)
    }
}

#[derive(Clone, Debug)]
pub struct Shape {
    pub alg: Algorithm,
    pub n: usize,
    pub m: usize,
    pub layout: Layout,
    pub entry: CapEntry,
    /// symbolic virtual clock installed (deadline may expire at any probe)
    pub clock: bool,
}

pub struct Captured(pub Which);

pub fn capture(s: &Shape, inp: &Inputs) -> Vec<DiffOp> {
    let dl = if s.clock { any_instant() } else { None };
    match s.entry {
        CapEntry::CaptureDiff => capture_diff(s.alg, &inp.old, inp.or.clone(), &inp.new, inp.nr.clone()),
        CapEntry::CaptureDiffDeadline => {
            capture_diff_deadline(s.alg, &inp.old, inp.or.clone(), &inp.new, inp.nr.clone(), dl)
        }
        CapEntry::CaptureSlices => match (&inp.old, &inp.new) {
            (Seq::Slice(o), Seq::Slice(n)) => capture_diff_slices(s.alg, &o[..], &n[..]),
            _ => unreachable!(),
        },
        CapEntry::CaptureSlicesDeadline => match (&inp.old, &inp.new) {
            (Seq::Slice(o), Seq::Slice(n)) => capture_diff_slices_deadline(s.alg, &o[..], &n[..], dl),
            _ => unreachable!(),
        },
        CapEntry::TextFromSlices | CapEntry::TextConfigDeadline => match (&inp.old, &inp.new) {
            (Seq::Slice(o), Seq::Slice(n)) => {
                use crate::symtxt::SymTxt;
                let ot: Vec<&SymTxt> = (0..o.len()).map(|i| SymTxt::new(&o[i..i + 1])).collect();
                let nt: Vec<&SymTxt> = (0..n.len()).map(|i| SymTxt::new(&n[i..i + 1])).collect();
                let diff = if s.entry == CapEntry::TextFromSlices {
                    // from_slices is Myers-only; other algorithms go through configure()
                    if s.alg == Algorithm::Myers {
                        similar::TextDiff::from_slices(&ot, &nt)
                    } else {
                        similar::TextDiff::configure().algorithm(s.alg).diff_slices(&ot, &nt)
                    }
                } else {
                    let mut c = similar::TextDiff::configure();
                    c.algorithm(s.alg);
                    if let Some(d) = dl {
                        c.deadline(d);
                    }
                    c.diff_slices(&ot, &nt)
                };
                let ops = diff.ops().to_vec();
                claim!(
                    diff.ratio() == get_diff_ratio(&ops, o.len(), n.len()),
                    "TextDiff::ratio() {} differs from get_diff_ratio over its ops and token counts",
                    diff.ratio()
                );
                claim!(diff.old_slices().len() == o.len() && diff.new_slices().len() == n.len(), "TextDiff lost tokens");
                ops
            }
            _ => unreachable!(),
        },
        CapEntry::ManualBorrowed => {
            let mut cap = Capture::new();
            {
                let mut d = Compact::new(Replace::new(&mut cap), &inp.old, &inp.new);
                algorithms::diff(s.alg, &mut d, &inp.old, inp.or.clone(), &inp.new, inp.nr.clone()).unwrap();
            }
            let ops = cap.into_ops();
            // one Replace<Capture> tail shared by two Compact stages (the same diff twice): the
            // tail must hold the ops twice
            let mut tail = Replace::new(Capture::new());
            for _ in 0..2 {
                let mut d = Compact::new(&mut tail, &inp.old, &inp.new);
                algorithms::diff(s.alg, &mut d, &inp.old, inp.or.clone(), &inp.new, inp.nr.clone()).unwrap();
            }
            let twice = tail.into_inner().into_ops();
            let mut want = ops.clone();
            want.extend(ops.iter().copied());
            claim!(twice == want, "a Replace<Capture> tail reused for the same diff twice holds {:?}, expected the ops {:?} twice", twice, ops);
            ops
        }
        CapEntry::Manual => {
            let mut d = Compact::new(Replace::new(Capture::new()), &inp.old, &inp.new);
            algorithms::diff(s.alg, &mut d, &inp.old, inp.or.clone(), &inp.new, inp.nr.clone()).unwrap();
            d.into_inner().into_inner().into_ops()
        }
    }
}

fn small_layouts() -> Vec<Layout> {
    vec![
        Layout::Slice { pre_o: 0, post_o: 0, pre_n: 0, post_n: 0 },
        Layout::Slice { pre_o: 1, post_o: 1, pre_n: 2, post_n: 1 },
        Layout::Offset { off_o: 3, off_n: 1 },
    ]
}

impl Captured {
    fn do_run(&self, s: &Shape, repair: bool) -> String {
        reset_hooks();
        similar::algorithms::verif_swap::set_repair(repair);
        let inp = make_inputs(s.n, s.m, s.layout);
        let clock = if s.clock { Some(install_clock()) } else { None };
        let ops = capture(s, &inp);
        let swaps = similar::algorithms::verif_swap::swaps();
        similar::verif_clock::install(None);
        if swaps > 0 {
            engine::witness("paths_that_took_a_compaction_swap");
        }
        if let Some(c) = &clock {
            if c.fired_at.get().is_some() {
                engine::witness("paths_where_the_deadline_fired");
            }
        }
        if ops.iter().any(|o| o.tag() == DiffTag::Replace) {
            engine::witness("paths_with_replace_op");
        }
        if matches!(s.layout, Layout::Blocks { .. }) {
            engine::witness("block_structured_paths");
        }
        if matches!(s.layout, Layout::Long { .. }) {
            engine::witness("long_structured_paths");
        }
        let chk = OpsCheck {
            exact_indices: self.0 == Which::C11,
            normal_form: self.0 == Which::C09,
        };
        let (del, ins, eq) = validate_ops(&ops, &inp.old, inp.or.clone(), &inp.new, inp.nr.clone(), chk);
        match self.0 {
            Which::C02 => {
                // apply old -> new and new -> old literally
                let mut out: Vec<crate::sym::Sym> = vec![];
                let mut back: Vec<crate::sym::Sym> = vec![];
                for op in &ops {
                    let (tag, o, n) = op.as_tag_tuple();
                    match tag {
                        DiffTag::Equal => {
                            for i in o.clone() {
                                out.push(inp.old[i]);
                            }
                            for i in n.clone() {
                                back.push(inp.new[i]);
                            }
                        }
                        _ => {
                            for i in n.clone() {
                                out.push(inp.new[i]);
                            }
                            for i in o.clone() {
                                back.push(inp.old[i]);
                            }
                        }
                    }
                }
                claim!(out.len() == s.m && back.len() == s.n, "applying the ops yields wrong lengths: {:?}", ops);
                let f = F::And(
                    out.iter().zip(&inp.new_items).map(|(a, b)| F::eq(a.0, b.0))
                        .chain(back.iter().zip(&inp.old_items).map(|(a, b)| F::eq(a.0, b.0)))
                        .collect(),
                );
                engine::must_hold(&f, &format!("applying the ops to old does not give new (or inverted): {:?}", ops));
                // identical inputs
                let must_equal = entails_equal(&inp.old_items, &inp.new_items);
                if must_equal {
                    engine::witness("paths_with_identical_inputs");
                    claim!(
                        ops.iter().all(|o| o.tag() == DiffTag::Equal),
                        "identical inputs but non-Equal ops: {:?}",
                        ops
                    );
                    if s.n == 0 {
                        claim!(ops.is_empty(), "two empty inputs but ops {:?}", ops);
                    }
                }
                let ratio = get_diff_ratio(&ops, s.n, s.m);
                claim!((0.0..=1.0).contains(&ratio), "ratio {} outside 0..=1 for {:?}", ratio, ops);
                if ratio == 1.0 {
                    claim!(must_equal, "ratio is 1.0 but the inputs are not (necessarily) equal: {:?}", ops);
                } else {
                    claim!(
                        !possibly_equal(&inp.old_items, &inp.new_items),
                        "ratio is {} but the inputs can be equal on this path: {:?}",
                        ratio,
                        ops
                    );
                }
            }
            Which::C03 => {
                let l = ref_lcs(&inp.old_items, &inp.new_items);
                claim!(
                    del + ins == s.n + s.m - 2 * l && eq == l,
                    "captured script is not minimal: deleted {} + inserted {} != {}+{}-2*{} (LCS), equal {}; ops {:?}",
                    del, ins, s.n, s.m, l, eq, ops
                );
                let ratio = get_diff_ratio(&ops, s.n, s.m);
                let expect = if s.n + s.m == 0 { 1.0 } else { 2.0 * l as f32 / (s.n + s.m) as f32 };
                claim!(ratio == expect, "ratio {} != 2*{}/({}+{}) = {}", ratio, l, s.n, s.m, expect);
                // raw stream
                let mut mon = Mon::new(&inp.old, inp.or.clone(), &inp.new, inp.nr.clone());
                let r = algorithms::diff(s.alg, &mut mon, &inp.old, inp.or.clone(), &inp.new, inp.nr.clone());
                claim!(r.is_ok(), "raw diff failed");
                claim!(
                    mon.deleted + mon.inserted == s.n + s.m - 2 * l && mon.equal == l,
                    "raw callback stream is not minimal: deleted {} + inserted {} != {}+{}-2*{} (LCS); calls {:?}",
                    mon.deleted, mon.inserted, s.n, s.m, l, mon.calls
                );
                if l > 0 && l < s.n.min(s.m) {
                    engine::witness("paths_with_nontrivial_lcs");
                }
            }
            _ => {}
        }
        engine::offer_sample(|| json!({"shape": self.shape_json(s), "path_condition": engine::path_condition(), "ops": ops_json(&ops)}));
        format!("{:?}", ops)
    }
}

impl Prop for Captured {
    type Shape = Shape;
    fn id(&self) -> &'static str {
        match self.0 {
            Which::C02 => "C02",
            Which::C03 => "C03",
            Which::C09 => "C09",
            Which::C11 => "C11",
        }
    }

    fn shapes(&self, tier: Tier) -> Vec<Shape> {
        let mut v = vec![];
        let algs: Vec<Algorithm> = if self.0 == Which::C03 {
            vec![Algorithm::Myers, Algorithm::Lcs]
        } else {
            ALGS.to_vec()
        };
        for alg in algs {
            let max = match (tier, self.0, alg) {
                (Tier::Quick, _, _) => 4,
                (Tier::Thorough, Which::C03, _) => 6,
                (Tier::Thorough, _, Algorithm::Patience) => 5,
                (Tier::Thorough, _, _) => 6,
            };
            // thorough: additionally longer-but-lopsided plain inputs (n,m <= 6, n+m <= 10)
            // additionally longer-but-lopsided plain inputs: n,m <= 6 with n+m <= 9 (quick) / 10 (thorough)
            let outer = if tier == Tier::Thorough { 7 } else { max.max(6) };
            let lop = if tier == Tier::Thorough { 11 } else { 9 };
            for n in 0..=outer {
                for m in 0..=outer {
                    if (n > max || m > max) && n + m > lop {
                        continue;
                    }
                    for layout in small_layouts() {
                        let big = n + m > 8 || n > max || m > max;
                        if big && !layout.is_plain() {
                            continue;
                        }
                        let entries: Vec<(CapEntry, bool)> = match self.0 {
                            Which::C03 => vec![(CapEntry::CaptureDiff, false)],
                            Which::C11 => vec![(CapEntry::CaptureDiff, false), (CapEntry::CaptureSlices, false), (CapEntry::Manual, false), (CapEntry::ManualBorrowed, false), (CapEntry::TextFromSlices, false)],
                            _ => vec![
                                (CapEntry::CaptureDiff, false),
                                (CapEntry::CaptureDiffDeadline, false),
                                (CapEntry::CaptureDiffDeadline, true),
                                (CapEntry::CaptureSlices, false),
                                (CapEntry::CaptureSlicesDeadline, true),
                                (CapEntry::Manual, false),
                                (CapEntry::ManualBorrowed, false),
                                (CapEntry::TextFromSlices, false),
                                (CapEntry::TextConfigDeadline, true),
                            ],
                        };
                        for (entry, clock) in entries {
                            if entry.slices_only() && !layout.is_plain() {
                                continue;
                            }
                            if big && (clock || entry != CapEntry::CaptureDiff) {
                                continue;
                            }
                            if clock && !entry.takes_deadline() {
                                continue;
                            }
                            v.push(Shape { alg, n, m, layout, entry, clock });
                        }
                    }
                }
            }
        }
        // block-structured inputs through capture_diff
        let bl: Vec<Layout> = match tier {
            Tier::Quick => block_layouts(4, 2),
            Tier::Thorough => block_layouts(4, 1).into_iter().chain(block_layouts(5, 2)).chain(block_layouts(4, 3)).collect(),
        };
        let algs2: Vec<Algorithm> = if self.0 == Which::C03 { vec![Algorithm::Myers, Algorithm::Lcs] } else { ALGS.to_vec() };
        for alg in algs2.clone() {
            for layout in &bl {
                let (n, m) = layout_lens(layout, 0, 0);
                v.push(Shape { alg, n, m, layout: *layout, entry: CapEntry::CaptureDiff, clock: false });
            }
        }
        // long structured families (single path each) through capture_diff
        for alg in algs2 {
            for layout in long_layouts(tier == Tier::Thorough) {
                let (n, m) = layout_lens(&layout, 0, 0);
                if alg == Algorithm::Lcs && n * m > 60_000 {
                    continue;
                }
                v.push(Shape { alg, n, m, layout, entry: CapEntry::CaptureDiff, clock: false });
            }
        }
        // mostly similar inputs whose middle-snake search runs for hundreds of rounds and then meets
        // a short common block that conflicts with a longer one (fam 10; Myers only: 840 x 820 items)
        let bait: &[(u16, u8, u8)] = match tier {
            Tier::Quick => &[(240, 0, 0)],
            Tier::Thorough => &[(240, 0, 0), (240, 1, 0b0110), (320, 0, 0), (200, 2, 0)],
        };
        for &(k, var, pad) in bait {
            let layout = Layout::Long { fam: 10, k, var, pad };
            let (n, m) = layout_lens(&layout, 0, 0);
            v.push(Shape { alg: Algorithm::Myers, n, m, layout, entry: CapEntry::CaptureDiff, clock: false });
        }
        v
    }

    fn run(&self, s: &Shape) -> String {
        self.do_run(s, false)
    }

    fn attribute(&self, s: &Shape, ints: &[i64], bools: &[bool], _msg: &str) -> Option<String> {
        if self.0 != Which::C11 {
            return None;
        }
        // known finding iff the same concrete case satisfies the property when the
        // compaction swap also repairs the carried indices (hook H2)
        match engine::run_concrete(ints, bools, || self.do_run(s, true)) {
            engine::Leaf::Ok(_) => Some("src/algorithms/compact.rs:swap".into()),
            _ => None,
        }
    }

    fn cost(&self, s: &Shape) -> u64 {
        (s.n + s.m) as u64 * if s.clock { 2 } else { 1 }
    }

    fn shape_json(&self, s: &Shape) -> Value {
        json!({"alg": alg_name(s.alg), "n": s.n, "m": s.m, "layout": s.layout.to_json(), "entry": s.entry.name(), "clock": s.clock})
    }
    fn shape_from(&self, v: &Value) -> Shape {
        Shape {
            alg: alg_from(v["alg"].as_str().unwrap()),
            n: v["n"].as_u64().unwrap() as usize,
            m: v["m"].as_u64().unwrap() as usize,
            layout: Layout::from_json(&v["layout"]),
            entry: CapEntry::from(v["entry"].as_str().unwrap()),
            clock: v["clock"].as_bool().unwrap(),
        }
    }
    fn describe(&self, s: &Shape, ints: &[i64], bools: &[bool]) -> Value {
        let mut d = describe_inputs(s.n, s.m, s.layout, ints);
        if s.clock {
            d["deadline_probe_outcomes"] = json!(bools);
        }
        d
    }

    fn meta(&self, tier: Tier) -> Meta {
        let mut functions = vec![
            "similar::{capture_diff, capture_diff_deadline, capture_diff_slices, capture_diff_slices_deadline}",
            "similar::algorithms::{Compact (cleanup_diff_ops, shift_diff_ops_up/down), Replace, Capture}",
            "similar::DiffOp::{as_tag_tuple, apply_to_hook, grow/shrink/shift helpers}",
            "similar::algorithms::{myers, patience, lcs}::diff_deadline and callees",
            "similar::get_diff_ratio",
            "similar::TextDiff::{from_slices, ops, ratio}, TextDiffConfig::{algorithm, deadline, diff_slices, diff} over one-character SymTxt tokens",
        ];
        if self.0 == Which::C03 {
            functions.push("similar::algorithms::diff (raw callback stream, monitored)");
        }
        let max = match tier { Tier::Quick => 4, Tier::Thorough => 6 };
        let required: Vec<&'static str> = match self.0 {
            Which::C02 => vec!["paths_with_identical_inputs", "paths_where_the_deadline_fired", "paths_with_replace_op", "long_structured_paths"],
            Which::C03 => vec!["paths_with_nontrivial_lcs", "long_structured_paths"],
            Which::C09 => vec!["paths_where_the_deadline_fired", "paths_with_replace_op", "paths_that_took_a_compaction_swap", "long_structured_paths"],
            Which::C11 => vec!["paths_that_took_a_compaction_swap", "paths_with_replace_op", "long_structured_paths"],
        };
        Meta {
            functions,
            bounds: format!(
                "{} x range lengths n,m in 0..={} (plus lopsided whole-slice inputs up to 6 (thorough 7) items a side with n+m<=9 quick / 11 thorough through capture_diff) x layouts {{whole slices, padded slices (1,1 / 2,1), offset lookups at (3,1)}} x entry points {}; symbolic items over an unbounded alphabet; plus block-structured inputs (up to 4 blocks of 2 items a side over 3 block types, thorough also block lengths 1, 3 and 5 blocks) and the long structured families of common.rs::long_layouts (about 30 (thorough 53) inputs of 40..600 items a side, one path each: repeated-item stretches between unique items, unique items moved across a repetitive body, mostly different inputs with few common items, chains, runs / periodic stretches growing by a period, doubled items / blocks, every 16th item replaced; some as sub-ranges at unequal offsets){}",
                if self.0 == Which::C03 { "Myers and LCS" } else { "3 algorithms" },
                max,
                match self.0 {
                    Which::C03 => "{capture_diff, algorithms::diff raw}",
                    Which::C11 => "{capture_diff, capture_diff_slices, hand-assembled Compact<Replace<Capture>>, TextDiff::from_slices}",
                    _ => "{capture_diff, capture_diff_deadline(None), capture_diff_deadline(symbolic clock), capture_diff_slices, capture_diff_slices_deadline(symbolic clock), hand-assembled Compact<Replace<Capture>>, TextDiff::from_slices / configure().diff_slices, TextDiffConfig::deadline(symbolic clock).diff_slices}",
                },
                if matches!(self.0, Which::C02 | Which::C09) { "; deadline = virtual clock (hook H1), one z3 Bool per probe with a latch, so every expiry point is explored" } else { "" }
            ),
            outside: "range lengths beyond the bound; the f32 rounding regime of very long inputs (see the Kani harness for get_diff_ratio); text diffs built by the tokenizing constructors (decided in C04/C14)".into(),
            assumptions: vec![
                "items are touched only via PartialEq/Ord/Hash".into(),
                "constant Hash for symbolic items (lawful); concrete re-execution of sampled leaves hashes values".into(),
                "H1 virtual clock replaces Instant::now() only when a deadline is present (cfg similar_verif)".into(),
            ],
            required_witnesses: required,
            rule: "one state = one explored path of the real code for one shape (incl. one expiry point of the clock); one transition = one solver-decided comparison or clock probe".into(),
        }
    }
}
