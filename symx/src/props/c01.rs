//! C01 — every algorithm emits a sound, gap-free, index-exact edit script.
use super::{Meta, Prop, Tier};
use crate::claim;
use crate::common::*;
use crate::engine;
use serde_json::{json, Value};
use similar::algorithms::{self, lcs, myers, patience};
use similar::Algorithm;

#[derive(Clone, Copy, Debug, PartialEq, Eq)]
pub enum Entry {
    /// similar::algorithms::{myers,patience,lcs}::diff
    Module,
    /// similar::algorithms::diff(alg, ..)
    AlgDiff,
    /// similar::algorithms::diff_slices(alg, ..) (whole slices only)
    DiffSlices,
    /// similar::algorithms::diff_deadline(alg, .., Some(deadline)) under the symbolic clock
    /// (hook H1): the same script claims at every expiry point
    DeadlineClock,
    /// algorithms::diff with old and new being the SAME object (one buffer of `n` items) and
    /// two different ranges of it (`m` selects the pair of ranges, see `same_buffer_ranges`)
    SameBuffer,
}

/// Pairs of ranges of one buffer of `t` items: shared ends, shared starts, shifted windows.
pub fn same_buffer_ranges(t: usize) -> Vec<(std::ops::Range<usize>, std::ops::Range<usize>)> {
    let mut v = vec![];
    for a in 0..t {
        for b in 0..t {
            if a != b {
                v.push((a..t, b..t));
            }
        }
    }
    if t >= 2 {
        v.push((0..t - 1, 1..t));
        v.push((1..t, 0..t - 1));
        v.push((0..t, 0..t - 1));
        v.push((0..t - 1, 0..t));
    }
    v
}

#[derive(Clone, Debug)]
pub struct Shape {
    pub alg: Algorithm,
    pub n: usize,
    pub m: usize,
    pub layout: Layout,
    pub entry: Entry,
    /// all n+m items are assumed pairwise different (one z3 distinct): a single path, used
    /// for large lopsided inputs that make the search run for hundreds of steps
    pub all_different: bool,
}

pub struct C01;

pub fn layouts(tier: Tier) -> Vec<Layout> {
    let mut v = vec![];
    let (pre, post): (&[usize], &[usize]) = match tier {
        Tier::Quick => (&[0, 1], &[0, 1]),
        Tier::Thorough => (&[0, 1, 2], &[0, 1]),
    };
    for &pre_o in pre {
        for &post_o in post {
            for &pre_n in pre {
                for &post_n in post {
                    v.push(Layout::Slice {
                        pre_o,
                        post_o,
                        pre_n,
                        post_n,
                    });
                }
            }
        }
    }
    for &(off_o, off_n) in &[(0usize, 0usize), (1, 0), (0, 2), (3, 1)] {
        v.push(Layout::Offset { off_o, off_n });
    }
    v
}

pub fn run_diff(
    alg: Algorithm,
    entry: Entry,
    inp: &Inputs,
    mon: &mut Mon,
) -> Result<(), String> {
    match entry {
        Entry::Module => match alg {
            Algorithm::Myers => myers::diff(mon, &inp.old, inp.or.clone(), &inp.new, inp.nr.clone()),
            Algorithm::Patience => {
                patience::diff(mon, &inp.old, inp.or.clone(), &inp.new, inp.nr.clone())
            }
            Algorithm::Lcs => lcs::diff(mon, &inp.old, inp.or.clone(), &inp.new, inp.nr.clone()),
        },
        Entry::AlgDiff => {
            algorithms::diff(alg, mon, &inp.old, inp.or.clone(), &inp.new, inp.nr.clone())
        }
        Entry::DeadlineClock => {
            let _clock = install_clock();
            let r = algorithms::diff_deadline(alg, mon, &inp.old, inp.or.clone(), &inp.new, inp.nr.clone(), any_instant());
            similar::verif_clock::install(None);
            r
        }
        Entry::SameBuffer => unreachable!("handled in run"),
        Entry::DiffSlices => match (&inp.old, &inp.new) {
            (Seq::Slice(o), Seq::Slice(n)) => algorithms::diff_slices(alg, mon, &o[..], &n[..]),
            _ => unreachable!(),
        },
    }
}

impl Prop for C01 {
    type Shape = Shape;
    fn id(&self) -> &'static str {
        "C01"
    }

    fn shapes(&self, tier: Tier) -> Vec<Shape> {
        let mut v = vec![];
        for alg in ALGS {
            let max = match (tier, alg) {
                (Tier::Quick, Algorithm::Patience) => 4,
                (Tier::Quick, _) => 5,
                (Tier::Thorough, Algorithm::Patience) => 5,
                (Tier::Thorough, _) => 6,
            };
            for n in 0..=max {
                for m in 0..=max {
                    let big = n + m > 8;
                    for layout in layouts(tier) {
                        // the largest sizes only with a reduced set of layouts
                        if big
                            && !matches!(
                                layout,
                                Layout::Slice {
                                    pre_o: 0 | 1,
                                    post_o: 1,
                                    pre_n: 0 | 1,
                                    post_n: 1
                                } | Layout::Offset { off_o: 3, off_n: 1 }
                            )
                        {
                            continue;
                        }
                        for entry in [Entry::Module, Entry::AlgDiff] {
                            if big && entry == Entry::AlgDiff {
                                continue;
                            }
                            v.push(Shape {
                                alg,
                                n,
                                m,
                                layout,
                                entry,
                                all_different: false,
                            });
                        }
                    }
                    if !big {
                        v.push(Shape {
                            alg,
                            n,
                            m,
                            layout: Layout::Slice {
                                pre_o: 0,
                                post_o: 0,
                                pre_n: 0,
                                post_n: 0,
                            },
                            entry: Entry::DiffSlices,
                            all_different: false,
                        });
                    }
                    if n <= 4 && m <= 4 {
                        for layout in [Layout::Slice { pre_o: 0, post_o: 0, pre_n: 0, post_n: 0 }, Layout::Offset { off_o: 2, off_n: 1 }] {
                            v.push(Shape { alg, n, m, layout, entry: Entry::DeadlineClock, all_different: false });
                        }
                    }
                }
            }
        }
        // one buffer diffed against itself over two different ranges
        for alg in ALGS {
            for t in 2..=(if tier == Tier::Quick { 4 } else { 5 }) {
                for (i, _) in same_buffer_ranges(t).iter().enumerate() {
                    v.push(Shape { alg, n: t, m: i, layout: Layout::Slice { pre_o: 0, post_o: 0, pre_n: 0, post_n: 0 }, entry: Entry::SameBuffer, all_different: false });
                }
            }
        }
        // block-structured inputs (block moves, duplicated blocks, repeats across a shared head / tail)
        let bl: Vec<Layout> = match tier {
            Tier::Quick => block_layouts(4, 2),
            Tier::Thorough => block_layouts(4, 1).into_iter().chain(block_layouts(5, 2)).chain(block_layouts(4, 3)).collect(),
        };
        for alg in ALGS {
            for layout in &bl {
                let (n, m) = layout_lens(layout, 0, 0);
                v.push(Shape { alg, n, m, layout: *layout, entry: Entry::AlgDiff, all_different: false });
            }
        }
        // long structured families (single path each)
        for alg in ALGS {
            for layout in long_layouts(tier == Tier::Thorough) {
                let (n, m) = layout_lens(&layout, 0, 0);
                if alg == Algorithm::Lcs && n * m > 60_000 {
                    continue;
                }
                v.push(Shape { alg, n, m, layout, entry: Entry::AlgDiff, all_different: false });
            }
        }
        // large inputs without any common item (the search then runs for n+m steps):
        // lopsided and balanced, whole slices and an offset lookup
        let big: &[(usize, usize)] = match tier {
            Tier::Quick => &[(1, 520), (520, 1), (127, 390), (3, 300), (60, 60)],
            Tier::Thorough => &[(1, 520), (520, 1), (127, 390), (390, 127), (3, 300), (300, 3), (60, 60), (200, 260), (1, 1100)],
        };
        for alg in ALGS {
            for &(n, m) in big {
                if alg == Algorithm::Lcs && n * m > 2000 {
                    continue; // the LCS table is n*m comparisons
                }
                for layout in [Layout::Slice { pre_o: 0, post_o: 0, pre_n: 0, post_n: 0 }, Layout::Offset { off_o: 5, off_n: 1 }] {
                    v.push(Shape { alg, n, m, layout, entry: Entry::AlgDiff, all_different: true });
                }
            }
        }
        v
    }

    fn run(&self, s: &Shape) -> String {
        reset_hooks();
        if s.entry == Entry::SameBuffer {
            let inp = make_inputs(s.n, 0, s.layout);
            let (r1, r2) = same_buffer_ranges(s.n)[s.m].clone();
            let mut mon = Mon::new(&inp.old, r1.clone(), &inp.old, r2.clone());
            let r = algorithms::diff(s.alg, &mut mon, &inp.old, r1.clone(), &inp.old, r2.clone());
            claim!(r.is_ok(), "diff returned an error although the hook never fails: {:?}", r);
            mon.after_success();
            engine::witness("paths_with_one_buffer_on_both_sides");
            // the same items as two separate buffers give the same callbacks
            let copy = Seq::Slice(inp.old_items.clone());
            let mut mon2 = Mon::new(&inp.old, r1.clone(), &copy, r2.clone());
            let r2x = algorithms::diff(s.alg, &mut mon2, &inp.old, r1.clone(), &copy, r2.clone());
            claim!(r2x.is_ok(), "diff of the copied buffer failed");
            claim!(mon.calls == mon2.calls, "one buffer on both sides gives {:?}, a copy of it on the new side gives {:?} (ranges {:?} / {:?})", mon.calls, mon2.calls, r1, r2);
            return format!("{:?}", mon.calls);
        }
        let inp = make_inputs(s.n, s.m, s.layout);
        if s.all_different {
            let ids: Vec<u32> = inp.old_items.iter().chain(inp.new_items.iter()).map(|x| x.0).collect();
            engine::assume(&crate::engine::F::Distinct(ids.clone()));
            for id in ids {
                engine::set_hash_class(id, id as u64);
            }
            engine::witness("large_all_different_paths");
        }
        let mut mon = Mon::new(&inp.old, inp.or.clone(), &inp.new, inp.nr.clone());
        if s.all_different {
            mon.check_data = false; // no Equal call can occur; nothing to entail
        }
        let r = run_diff(s.alg, s.entry, &inp, &mut mon);
        claim!(r.is_ok(), "diff returned an error although the hook never fails: {:?}", r);
        mon.after_success();
        let calls = mon.calls.clone();
        // witness classes
        if calls.iter().any(|c| matches!(c, Call::Equal(..))) {
            engine::witness("paths_with_equal");
        }
        if calls.iter().any(|c| matches!(c, Call::Delete(..)))
            && calls.iter().any(|c| matches!(c, Call::Insert(..)))
        {
            engine::witness("paths_with_delete_and_insert");
        }
        // differential clause: diffing the sub-range == diffing the extracted slices, shifted
        if s.entry == Entry::DeadlineClock {
            engine::witness("paths_under_the_symbolic_clock");
        }
        if matches!(s.layout, Layout::Blocks { .. }) {
            engine::witness("block_structured_paths");
        }
        if matches!(s.layout, Layout::Long { .. }) {
            engine::witness("long_structured_paths");
        }
        if !s.layout.is_plain() && s.entry != Entry::DeadlineClock && !s.all_different && !matches!(s.layout, Layout::Blocks { .. } | Layout::Long { .. }) {
            engine::witness("paths_with_subrange_differential");
            let inp2 = Inputs {
                old: Seq::Slice(inp.old_items.clone()),
                new: Seq::Slice(inp.new_items.clone()),
                or: 0..s.n,
                nr: 0..s.m,
                old_items: inp.old_items.clone(),
                new_items: inp.new_items.clone(),
            };
            let mut mon2 = Mon::new(&inp2.old, 0..s.n, &inp2.new, 0..s.m);
            let r2 = run_diff(s.alg, if s.entry == Entry::DiffSlices { Entry::AlgDiff } else { s.entry }, &inp2, &mut mon2);
            claim!(r2.is_ok(), "diff of the extracted slices failed: {:?}", r2);
            let shifted: Vec<Call> = mon2
                .calls
                .iter()
                .map(|c| c.shifted(inp.or.start, inp.nr.start))
                .collect();
            claim!(
                shifted == calls,
                "diffing the sub-range differs from diffing the extracted slices shifted by the range starts: sub-range {:?} vs slices {:?}",
                calls,
                shifted
            );
        }
        engine::offer_sample(|| {
            json!({"shape": self.shape_json(s), "path_condition": engine::path_condition(), "callbacks": format!("{:?}", calls)})
        });
        format!("{:?}", calls)
    }

    fn shape_json(&self, s: &Shape) -> Value {
        json!({"all_different": s.all_different, "alg": alg_name(s.alg), "n": s.n, "m": s.m, "layout": s.layout.to_json(),
               "entry": match s.entry { Entry::SameBuffer => "one buffer, two ranges", Entry::Module => "module", Entry::AlgDiff => "algorithms::diff", Entry::DiffSlices => "diff_slices", Entry::DeadlineClock => "diff_deadline+clock" }})
    }
    fn shape_from(&self, v: &Value) -> Shape {
        Shape {
            alg: alg_from(v["alg"].as_str().unwrap()),
            n: v["n"].as_u64().unwrap() as usize,
            m: v["m"].as_u64().unwrap() as usize,
            layout: Layout::from_json(&v["layout"]),
            all_different: v["all_different"].as_bool().unwrap_or(false),
            entry: match v["entry"].as_str().unwrap() {
                "module" => Entry::Module,
                "algorithms::diff" => Entry::AlgDiff,
                "diff_deadline+clock" => Entry::DeadlineClock,
                "one buffer, two ranges" => Entry::SameBuffer,
                _ => Entry::DiffSlices,
            },
        }
    }

    fn cost(&self, s: &Shape) -> u64 {
        if s.all_different {
            1000 + ((s.n + s.m) as u64)
        } else {
            (s.n + s.m) as u64
        }
    }

    fn describe(&self, s: &Shape, ints: &[i64], b: &[bool]) -> Value {
        if s.entry == Entry::SameBuffer {
            let (r1, r2) = same_buffer_ranges(s.n)[s.m].clone();
            return json!({"buffer (used as old AND new, the same object)": ints.iter().take(s.n).collect::<Vec<_>>(), "old_range": [r1.start, r1.end], "new_range": [r2.start, r2.end]});
        }
        let mut d = describe_inputs(s.n, s.m, s.layout, ints);
        if s.entry == Entry::DeadlineClock {
            d["deadline_probe_outcomes"] = json!(b);
        }
        d
    }

    fn meta(&self, tier: Tier) -> Meta {
        Meta {
            functions: vec![
                "similar::algorithms::diff", "similar::algorithms::diff_deadline", "similar::algorithms::diff_slices",
                "similar::algorithms::myers::{diff,diff_deadline,conquer,find_middle_snake,V,max_d,split_at}",
                "similar::algorithms::patience::{diff,diff_deadline,Patience as DiffHook}",
                "similar::algorithms::lcs::{diff,diff_deadline,make_table}",
                "similar::algorithms::utils::{common_prefix_len,common_suffix_len,unique,UniqueItem,is_empty_range}",
                "similar::algorithms::{Replace,NoFinishHook} (inside patience)",
            ],
            bounds: match tier {
                Tier::Quick => "3 algorithms x range lengths n,m in 0..=5 (Patience 0..=4) x {slice with 0/1 padding items before/after each range (16 combinations), offset lookups at (0,0),(1,0),(0,2),(3,1)} x entry points {alg module diff, algorithms::diff, diff_slices (whole slices)}, plus algorithms::diff_deadline under the symbolic clock (every expiry point) for n,m<=4; plus block-structured inputs (up to 4 blocks of 2 items a side over 3 block types, all items of different block types different; thorough: also block lengths 1 and 3 and 5 blocks) and large inputs without any common item (all items assumed pairwise different, one path each): 1x520, 520x1, 127x390, 3x300, 60x60 (thorough also 390x127, 300x3, 200x260, 1x1100), whole slices and offset lookups; plus one buffer of 2..=4 (thorough 5) symbolic items passed as old AND new (the same object) with every pair of different ranges sharing an end, and shifted / nested windows; plus the long structured families of common.rs::long_layouts (about 30 (thorough 53) inputs of 40..600 items a side: long changed stretches of repeated items between unique items, unique items moved across a repetitive body, mostly different inputs with a few common interior items, chains where every value occurs twice, runs / periodic stretches growing or shrinking by a period, a doubled item or block, every 16th item replaced; some as sub-ranges at unequal offsets; one path each); items symbolic over an unbounded alphabet (z3 Int), padding items symbolic too".into(),
                Tier::Thorough => "as quick, with n,m in 0..=6 (Patience 0..=5), padding before in {0,1,2}; for n+m>8 only a reduced set of layouts".into(),
            },
            outside: "range lengths beyond the bound; Index implementations with side effects; PartialEq implementations that are not equivalence relations; the promptness / plumbing clauses of deadlines (C07)".into(),
            assumptions: vec![
                "items are compared only through PartialEq/Ord/Hash of the element type (true for generic code without specialization)".into(),
                "Sym's Hash is constant in symbolic runs (lawful); concrete re-executions hash the value".into(),
                "z3 4.8.12 decides QF_LIA equalities/orderings correctly".into(),
            ],
            required_witnesses: vec!["paths_with_equal", "paths_with_delete_and_insert", "paths_with_subrange_differential", "large_all_different_paths", "long_structured_paths", "paths_with_one_buffer_on_both_sides"],
            rule: "one state = one explored path (leaf) of the real code for one shape; one transition = one solver-decided comparison".into(),
        }
    }
}

pub fn describe_inputs(n: usize, m: usize, layout: Layout, ints: &[i64]) -> Value {
    match layout {
        Layout::Slice {
            pre_o,
            post_o,
            pre_n,
            post_n,
        } => {
            let lo = pre_o + n + post_o;
            let ln = pre_n + m + post_n;
            let old: Vec<i64> = ints.iter().take(lo).cloned().collect();
            let new: Vec<i64> = ints.iter().skip(lo).take(ln).cloned().collect();
            json!({"old": old, "old_range": [pre_o, pre_o+n], "new": new, "new_range": [pre_n, pre_n+m], "index": "slices"})
        }
        Layout::Blocks { old, new, blen } => {
            let mut it = ints.iter();
            let pool: Vec<Vec<i64>> = (0..3).map(|t| it.by_ref().take(block_type_len(t, blen)).cloned().collect()).collect();
            let build = |bs: &[u8; 5]| -> Vec<i64> { bs.iter().filter(|b| **b != 255).flat_map(|b| pool.get(*b as usize).cloned().unwrap_or_default()).collect() };
            json!({"old": build(&old), "new": build(&new), "index": "slices (whole)", "block_structure": {"old": old.iter().filter(|b| **b != 255).collect::<Vec<_>>(), "new": new.iter().filter(|b| **b != 255).collect::<Vec<_>>(), "block_len": blen}})
        }
        Layout::Long { fam, k, var, pad } => {
            let (po, pn, name) = long_pattern(fam, k as usize, var);
            let mut keys: Vec<u32> = po.iter().chain(pn.iter()).copied().collect();
            keys.sort();
            keys.dedup();
            let val = |x: &u32| -> i64 { ints.get(keys.binary_search(x).unwrap()).copied().unwrap_or(-1) };
            json!({"pattern": name, "k": k, "old_items_of_range": po.iter().map(val).collect::<Vec<_>>(), "new_items_of_range": pn.iter().map(val).collect::<Vec<_>>(),
                   "extra_items_in_front_of_the_ranges": {"old": pad & 3, "new": (pad >> 2) & 3}, "index": if pad & 32 != 0 { "lookups into one interned pool shared by both sides (equal items are the same object)" } else if pad & 16 != 0 { "offset lookups valid only on the ranges (bases 5+pad / 1+pad)" } else { "slices" }, "note": "pool items are pairwise different; the values are one model"})
        }
        Layout::Offset { off_o, off_n } => {
            let old: Vec<i64> = ints.iter().take(n).cloned().collect();
            let new: Vec<i64> = ints.iter().skip(n).take(m).cloned().collect();
            json!({"old_items_of_range": old, "old_range": [off_o, off_o+n], "new_items_of_range": new, "new_range": [off_n, off_n+m], "index": "offset lookup valid only on the range"})
        }
    }
}
