//! C15 (Patience anchors), C19 (work bound), C20 (determinism / equality pattern only),
//! C14 part (IdentifyDistinct).
use super::{Meta, Prop, Tier};
use crate::claim;
use crate::common::*;
use crate::engine::{self, Atom, F};
use crate::props::c01::describe_inputs;
use crate::sym::Sym;
use serde_json::{json, Value};
use similar::algorithms::{self, IdentifyDistinct};
use similar::{capture_diff, capture_diff_slices, Algorithm, DiffOp, DiffTag};

const PLAIN: Layout = Layout::Slice { pre_o: 0, post_o: 0, pre_n: 0, post_n: 0 };

fn sym_eq(a: Sym, b: Sym) -> bool {
    a.0 == b.0 || engine::decide(Atom::eq(a.0, b.0))
}

// ------------------------------------------------------------------ C15

#[derive(Clone, Debug)]
pub struct NM {
    pub n: usize,
    pub m: usize,
    pub layout: Layout,
    pub captured: bool,
    /// the new side has a different item type (SymB) that compares with the old side's items
    /// but hashes differently; raw callbacks on whole slices only
    pub hetero: bool,
}
pub struct C15;

impl Prop for C15 {
    type Shape = NM;
    fn id(&self) -> &'static str {
        "C15"
    }
    fn shapes(&self, tier: Tier) -> Vec<NM> {
        let max = match tier {
            Tier::Quick => 4,
            Tier::Thorough => 5,
        };
        let mut v = vec![];
        let bl: Vec<Layout> = match tier {
            Tier::Quick => block_layouts(4, 2),
            Tier::Thorough => block_layouts(4, 1).into_iter().chain(block_layouts(5, 2)).chain(block_layouts(4, 3)).collect(),
        };
        for layout in &bl {
            let (n, m) = layout_lens(layout, 0, 0);
            for captured in [false, true] {
                v.push(NM { n, m, layout: *layout, captured, hetero: false });
            }
        }
        for layout in long_layouts(tier == Tier::Thorough) {
            let (n, m) = layout_lens(&layout, 0, 0);
            for captured in [false, true] {
                v.push(NM { n, m, layout, captured, hetero: false });
            }
        }
        for n in 0..=max {
            for m in 0..=max {
                for captured in [false, true] {
                    v.push(NM { n, m, layout: PLAIN, captured, hetero: false });
                    if !captured {
                        v.push(NM { n, m, layout: PLAIN, captured, hetero: true });
                    }
                    if n + m <= 7 {
                        v.push(NM { n, m, layout: Layout::Offset { off_o: 1, off_n: 2 }, captured, hetero: false });
                    }
                }
            }
        }
        v
    }
    fn run(&self, s: &NM) -> String {
        reset_hooks();
        let inp = make_inputs(s.n, s.m, s.layout);
        // which old indices are reported Equal, and with which new index
        let mut paired: Vec<Option<usize>> = vec![None; s.n];
        let obs;
        if s.hetero {
            let (o, nw) = match (&inp.old, &inp.new) {
                (Seq::Slice(o), Seq::Slice(n)) => (o.clone(), n.iter().map(|x| crate::sym::SymB(*x)).collect::<Vec<_>>()),
                _ => unreachable!(),
            };
            struct Rec(Vec<Call>);
            impl algorithms::DiffHook for Rec {
                type Error = ();
                fn equal(&mut self, a: usize, b: usize, c: usize) -> Result<(), ()> {
                    self.0.push(Call::Equal(a, b, c));
                    Ok(())
                }
                fn delete(&mut self, a: usize, b: usize, c: usize) -> Result<(), ()> {
                    self.0.push(Call::Delete(a, b, c));
                    Ok(())
                }
                fn insert(&mut self, a: usize, b: usize, c: usize) -> Result<(), ()> {
                    self.0.push(Call::Insert(a, b, c));
                    Ok(())
                }
            }
            let mut rec = Rec(vec![]);
            algorithms::patience::diff(&mut rec, &o[..], 0..s.n, &nw[..], 0..s.m).unwrap();
            for c in &rec.0 {
                if let Call::Equal(oi, ni, len) = *c {
                    for t in 0..len {
                        claim!(oi + t < s.n && ni + t < s.m, "Equal call out of range: {:?}", rec.0);
                        engine::must_hold(&F::eq(inp.old_items[oi + t].0, inp.new_items[ni + t].0), &format!("Equal({},{},{}) pairs unequal items (old and new of different types)", oi, ni, len));
                        paired[oi + t] = Some(ni + t);
                    }
                }
            }
            engine::witness("paths_with_different_item_types");
            obs = format!("{:?}", rec.0);
        } else if s.captured {
            let ops = capture_diff(Algorithm::Patience, &inp.old, inp.or.clone(), &inp.new, inp.nr.clone());
            validate_ops(&ops, &inp.old, inp.or.clone(), &inp.new, inp.nr.clone(), OpsCheck::default());
            for op in &ops {
                if let DiffOp::Equal { old_index, new_index, len } = *op {
                    for t in 0..len {
                        paired[old_index + t - inp.or.start] = Some(new_index + t - inp.nr.start);
                    }
                }
            }
            obs = format!("{:?}", ops);
        } else {
            let mut mon = Mon::new(&inp.old, inp.or.clone(), &inp.new, inp.nr.clone());
            let r = algorithms::patience::diff(&mut mon, &inp.old, inp.or.clone(), &inp.new, inp.nr.clone());
            claim!(r.is_ok(), "patience failed");
            mon.after_success();
            for c in &mon.calls {
                if let Call::Equal(o, n, len) = *c {
                    for t in 0..len {
                        paired[o + t - inp.or.start] = Some(n + t - inp.nr.start);
                    }
                }
            }
            obs = format!("{:?}", mon.calls);
        }
        // items occurring exactly once in old and exactly once in new (decided by the solver)
        let (a, b) = (&inp.old_items, &inp.new_items);
        let mut anchors: Vec<(usize, usize)> = vec![];
        for i in 0..s.n {
            let in_old = (0..s.n).filter(|&x| sym_eq(a[i], a[x])).count();
            if in_old != 1 {
                continue;
            }
            let js: Vec<usize> = (0..s.m).filter(|&j| sym_eq(a[i], b[j])).collect();
            if js.len() == 1 {
                anchors.push((i, js[0]));
            }
        }
        // longest subsequence of anchors in the same relative order on both sides
        let k = anchors.len();
        let mut best = vec![1usize; k];
        let mut lis = 0;
        for x in 0..k {
            for y in 0..x {
                if anchors[y].1 < anchors[x].1 {
                    best[x] = best[x].max(best[y] + 1);
                }
            }
            lis = lis.max(best[x]);
        }
        let mut kept = 0;
        for &(i, j) in &anchors {
            if let Some(pj) = paired[i] {
                claim!(
                    pj == j,
                    "unique common item old[{}] is matched to new[{}] instead of its unique counterpart new[{}] ({})",
                    i, pj, j, obs
                );
                kept += 1;
            }
        }
        if lis >= 2 {
            engine::witness("paths_with_two_or_more_ordered_anchors");
        }
        if matches!(s.layout, Layout::Long { .. }) {
            engine::witness("long_structured_paths");
        }
        if k > lis {
            engine::witness("paths_with_crossing_anchors");
        }
        claim!(
            kept >= lis,
            "patience reports only {} of the unique common items as Equal, but {} of them appear in the same relative order on both sides (anchors {:?}; {})",
            kept, lis, anchors, obs
        );
        engine::offer_sample(|| json!({"shape": self.shape_json(s), "path_condition": engine::path_condition(), "unique_common_pairs": format!("{:?}", anchors), "longest_in_order": lis, "kept": kept, "result": obs.clone()}));
        obs
    }
    fn cost(&self, s: &NM) -> u64 {
        (s.n + s.m) as u64
    }
    fn shape_json(&self, s: &NM) -> Value {
        json!({"n": s.n, "m": s.m, "layout": s.layout.to_json(), "captured": s.captured, "different_item_types": s.hetero})
    }
    fn shape_from(&self, v: &Value) -> NM {
        NM { n: v["n"].as_u64().unwrap() as usize, m: v["m"].as_u64().unwrap() as usize, layout: Layout::from_json(&v["layout"]), captured: v["captured"].as_bool().unwrap(), hetero: v["different_item_types"].as_bool().unwrap_or(false) }
    }
    fn describe(&self, s: &NM, ints: &[i64], _b: &[bool]) -> Value {
        describe_inputs(s.n, s.m, s.layout, ints)
    }
    fn meta(&self, tier: Tier) -> Meta {
        Meta {
            functions: vec![
                "similar::algorithms::patience::{diff, diff_deadline, Patience::equal, Patience::finish}",
                "similar::algorithms::utils::unique (HashMap with symbolic keys)",
                "similar::algorithms::myers::diff_deadline over UniqueItem sequences and over the gaps",
                "similar::capture_diff(Algorithm::Patience, ..) for the captured variant",
            ],
            bounds: format!("n,m in 0..={} symbolic items, whole slices and offset lookups, raw callbacks and captured ops, and (raw, whole slices) with a new side of a different item type that compares with the old side's items but hashes differently; plus block-structured inputs (up to 4 blocks of 2 items a side over 3 block types with all items of different types different; thorough also block lengths 1, 3 and 5 blocks), where the shape fixes the equality pattern; plus the long structured families of common.rs::long_layouts (about 30 (thorough 53) inputs of 40..600 items a side, e.g. one or two unique items moved across a body of 100..300 repeated items); the reference (which items are unique on both sides, longest in-order subset) is computed by the harness from solver-decided comparisons", match tier { Tier::Quick => 4, Tier::Thorough => 5 }),
            outside: "longer inputs; deadlines".into(),
            assumptions: vec!["constant Hash for symbolic items (lawful)".into()],
            required_witnesses: vec!["paths_with_two_or_more_ordered_anchors", "paths_with_crossing_anchors", "long_structured_paths", "paths_with_different_item_types"],
            rule: "one state = one explored path (equality pattern) of patience on one shape".into(),
        }
    }
}

// ------------------------------------------------------------------ C19

thread_local! { static CNT: std::cell::Cell<u64> = const { std::cell::Cell::new(0) }; }
/// plain value with a counting PartialEq and a real (value) hash
#[derive(Clone, Copy, Debug, Eq, PartialOrd, Ord)]
struct Cnt(i64);
impl PartialEq for Cnt {
    fn eq(&self, o: &Cnt) -> bool {
        CNT.with(|c| c.set(c.get() + 1));
        self.0 == o.0
    }
}
impl std::hash::Hash for Cnt {
    fn hash<H: std::hash::Hasher>(&self, h: &mut H) {
        self.0.hash(h)
    }
}

#[derive(Clone, Debug)]
pub enum WorkShape {
    /// all inputs of size n x m
    Small { alg: Algorithm, n: usize, m: usize },
    /// skeleton family: `skel` shared pairwise-distinct items on both sides, free
    /// symbolic items inserted at the given positions (0 = front, 1 = middle, 2 = end)
    Skeleton { alg: Algorithm, skel: usize, old_extra: Vec<u8>, new_extra: Vec<u8> },
    /// near-identical inputs whose edit touches only repeated items: the shared skeleton
    /// of `skel` pairwise-different items, with a word over the two free symbols {0,1}
    /// spliced in at `pos` (1 = middle, 2 = end, 3 = before the last skeleton item) on each side (same length on both sides)
    Repeats { alg: Algorithm, skel: usize, pos: u8, old_word: Vec<u8>, new_word: Vec<u8> },
    /// `skel` pairwise-different items, of which `k` evenly scattered ones are replaced by
    /// fresh different items on the new side (D = 2k grows with the number of edits)
    Scattered { alg: Algorithm, skel: usize, k: usize },
    /// a block of `skel` pairwise-different items occurring twice on both sides (every value is
    /// repeated, none unique); `tail` extra different items follow on the new side
    DupBlock { alg: Algorithm, skel: usize, tail: usize },
    /// a long structured input of common.rs::long_layouts
    Long { alg: Algorithm, layout: Layout },
}
pub struct C19;

fn splice(skel: &[Sym], extra: &[u8]) -> Vec<Sym> {
    let mut front = vec![];
    let mut mid = vec![];
    let mut end = vec![];
    for &p in extra {
        let s = Sym::fresh();
        match p {
            0 => front.push(s),
            1 => mid.push(s),
            _ => end.push(s),
        }
    }
    let h = skel.len() / 2;
    let mut v = front;
    v.extend_from_slice(&skel[..h]);
    v.extend(mid);
    v.extend_from_slice(&skel[h..]);
    v.extend(end);
    v
}

impl Prop for C19 {
    type Shape = WorkShape;
    fn id(&self) -> &'static str {
        "C19"
    }
    fn shapes(&self, tier: Tier) -> Vec<WorkShape> {
        let mut v = vec![];
        let max = match tier {
            Tier::Quick => 5,
            Tier::Thorough => 6,
        };
        for alg in [Algorithm::Myers, Algorithm::Patience] {
            let max = if alg == Algorithm::Patience { max.min(5) } else { max };
            for n in 0..=max {
                for m in 0..=max {
                    v.push(WorkShape::Small { alg, n, m });
                }
            }
            let (skels, emax): (&[usize], usize) = match tier {
                Tier::Quick => (&[50, 100, 200], 2),
                Tier::Thorough => (&[50, 100, 200, 400, 800], 3),
            };
            // all multisets of positions with |old_extra| + |new_extra| <= emax
            let mut combos: Vec<(Vec<u8>, Vec<u8>)> = vec![];
            fn multisets(k: usize) -> Vec<Vec<u8>> {
                let mut out = vec![vec![]];
                for _ in 0..k {
                    let mut nx = vec![];
                    for v in &out {
                        let lo = v.last().copied().unwrap_or(0);
                        for p in lo..3u8 {
                            let mut w: Vec<u8> = v.clone();
                            w.push(p);
                            nx.push(w);
                        }
                    }
                    out = nx;
                }
                out
            }
            for eo in 0..=emax {
                for en in 0..=(emax - eo) {
                    for a in multisets(eo) {
                        for b in multisets(en) {
                            combos.push((a.clone(), b.clone()));
                        }
                    }
                }
            }
            for &skel in skels {
                for (a, b) in &combos {
                    v.push(WorkShape::Skeleton { alg, skel, old_extra: a.clone(), new_extra: b.clone() });
                }
            }
            let scat: &[(usize, usize)] = match tier {
                Tier::Quick => &[(200, 10), (200, 30)],
                Tier::Thorough => &[(200, 10), (200, 30), (400, 40), (800, 40)],
            };
            for &(skel, k) in scat {
                v.push(WorkShape::Scattered { alg, skel, k });
            }
            for layout in long_layouts(tier == Tier::Thorough) {
                if matches!(layout, Layout::Long { pad: 0, .. }) {
                    v.push(WorkShape::Long { alg, layout });
                }
            }
            let dup: &[usize] = match tier {
                Tier::Quick => &[100],
                Tier::Thorough => &[100, 200, 400],
            };
            for &skel in dup {
                for tail in [0usize, 1, 2] {
                    v.push(WorkShape::DupBlock { alg, skel, tail });
                }
            }
            // words over two free symbols, same length on both sides, differing in one or two places
            let wl = match tier {
                Tier::Quick => 3,
                Tier::Thorough => 4,
            };
            let rep_skels: &[usize] = match tier {
                Tier::Quick => &[100],
                Tier::Thorough => &[50, 100, 200],
            };
            for &skel in rep_skels {
                for pos in [1u8, 2, 3] {
                    for len in 2..=wl {
                        for ow in 0..(1u32 << len) {
                            for nw in 0..(1u32 << len) {
                                let d = (ow ^ nw).count_ones();
                                if d == 0 || d > 2 {
                                    continue;
                                }
                                let w = |x: u32| (0..len).map(|i| ((x >> i) & 1) as u8).collect::<Vec<u8>>();
                                v.push(WorkShape::Repeats { alg, skel, pos, old_word: w(ow), new_word: w(nw) });
                            }
                        }
                    }
                    // longer words in which every symbol is repeated on both sides (so the edit
                    // touches only non-unique items and stays inside one run of unique anchors)
                    for len in (wl + 1)..=(wl + 2) {
                        let ok = |x: u32| {
                            let ones = x.count_ones();
                            let zeros = len - ones;
                            ones != 1 && zeros != 1
                        };
                        for ow in 0..(1u32 << len) {
                            for nw in 0..(1u32 << len) {
                                let d = (ow ^ nw).count_ones();
                                if d == 0 || d > 2 || !ok(ow) || !ok(nw) {
                                    continue;
                                }
                                let w = |x: u32| (0..len).map(|i| ((x >> i) & 1) as u8).collect::<Vec<u8>>();
                                v.push(WorkShape::Repeats { alg, skel, pos, old_word: w(ow), new_word: w(nw) });
                            }
                        }
                    }
                }
            }
        }
        v
    }
    fn run(&self, s: &WorkShape) -> String {
        reset_hooks();
        let (alg, old, new) = match s {
            WorkShape::Small { alg, n, m } => (*alg, Sym::fresh_vec(*n), Sym::fresh_vec(*m)),
            WorkShape::Skeleton { alg, skel, old_extra, new_extra } => {
                let sk = Sym::fresh_vec(*skel);
                engine::assume(&F::Distinct(sk.iter().map(|x| x.0).collect()));
                let o = splice(&sk, old_extra);
                let n = splice(&sk, new_extra);
                if *alg == Algorithm::Patience {
                    // Patience hashes items.  To keep the std HashMap from comparing every
                    // free item with every skeleton item (an artefact of a constant hash),
                    // the free items of the Patience family are assumed different from the
                    // skeleton items (they may still equal each other); then "skeleton item i
                    // hashes to i, free items hash to one common value" is a lawful Hash.
                    let free: Vec<u32> = o.iter().chain(n.iter()).map(|x| x.0).filter(|id| *id >= *skel as u32).collect();
                    let mut fs = vec![];
                    for f in &free {
                        for k in &sk {
                            fs.push(F::ne(*f, k.0));
                        }
                        engine::set_hash_class(*f, u64::MAX);
                    }
                    if !fs.is_empty() {
                        engine::assume(&F::And(fs));
                    }
                    for k in &sk {
                        engine::set_hash_class(k.0, k.0 as u64);
                    }
                }
                (*alg, o, n)
            }
            WorkShape::Scattered { alg, skel, k } => {
                let sk = Sym::fresh_vec(*skel);
                let fresh = Sym::fresh_vec(*k);
                let all: Vec<u32> = sk.iter().chain(fresh.iter()).map(|x| x.0).collect();
                engine::assume(&F::Distinct(all.clone()));
                for id in &all {
                    engine::set_hash_class(*id, *id as u64);
                }
                let mut n = sk.clone();
                for (j, f) in fresh.iter().enumerate() {
                    n[(j * *skel) / *k + *skel / (2 * *k)] = *f;
                }
                (*alg, sk, n)
            }
            WorkShape::DupBlock { alg, skel, tail } => {
                let sk = Sym::fresh_vec(*skel);
                let fresh = Sym::fresh_vec(*tail);
                let all: Vec<u32> = sk.iter().chain(fresh.iter()).map(|x| x.0).collect();
                engine::assume(&F::Distinct(all.clone()));
                for id in &all {
                    engine::set_hash_class(*id, *id as u64);
                }
                let mut o = sk.clone();
                o.extend(sk.iter().copied());
                let mut n = o.clone();
                n.extend(fresh);
                (*alg, o, n)
            }
            WorkShape::Long { alg, layout } => {
                let inp = make_inputs(0, 0, *layout);
                engine::witness("long_structured_paths");
                (*alg, inp.old_items.clone(), inp.new_items.clone())
            }
            WorkShape::Repeats { alg, skel, pos, old_word, new_word } => {
                let sk = Sym::fresh_vec(*skel);
                engine::assume(&F::Distinct(sk.iter().map(|x| x.0).collect()));
                let free = [Sym::fresh(), Sym::fresh()];
                // the two free symbols differ from every skeleton item (they may equal each other)
                let mut fs = vec![];
                for f in &free {
                    for k in &sk {
                        fs.push(F::ne(f.0, k.0));
                    }
                    engine::set_hash_class(f.0, u64::MAX);
                }
                engine::assume(&F::And(fs));
                for k in &sk {
                    engine::set_hash_class(k.0, k.0 as u64);
                }
                let build = |w: &Vec<u8>| -> Vec<Sym> {
                    let word: Vec<Sym> = w.iter().map(|b| free[*b as usize]).collect();
                    let cut = match *pos {
                        1 => sk.len() / 2,
                        2 => sk.len(),
                        _ => sk.len() - 1,
                    };
                    let mut v = sk[..cut].to_vec();
                    v.extend(word);
                    v.extend_from_slice(&sk[cut..]);
                    v
                };
                (*alg, build(old_word), build(new_word))
            }
        };
        let (n, m) = (old.len(), new.len());
        let mut mon = Mon::new(&old, 0..n, &new, 0..m);
        mon.check_data = false;
        let c0 = engine::run_cmps();
        let r = algorithms::diff(alg, &mut mon, &old[..], 0..n, &new[..], 0..m);
        let mut cmps = engine::run_cmps() - c0;
        claim!(r.is_ok(), "diff failed");
        if alg == Algorithm::Patience {
            // Patience hashes its items (unique()); with the constant hash of symbolic items
            // the std HashMap degenerates to quadratic key comparisons, which is an artefact
            // of the harness.  The path (equality pattern) is therefore instantiated by its
            // model and the count is measured on plain values with a real hash.
            let ids: Vec<u32> = old.iter().chain(new.iter()).map(|x| x.0).collect();
            let lcs_needed = matches!(s, WorkShape::Small { .. });
            let _ = lcs_needed;
            engine::pin_model();
            let ov: Vec<Cnt> = old.iter().map(|x| Cnt(engine::value_of(x.0))).collect();
            let nv: Vec<Cnt> = new.iter().map(|x| Cnt(engine::value_of(x.0))).collect();
            let _ = ids;
            struct Null;
            impl algorithms::DiffHook for Null {
                type Error = ();
            }
            CNT.with(|c| c.set(0));
            algorithms::diff(alg, &mut Null, &ov[..], 0..n, &nv[..], 0..m).unwrap();
            cmps = CNT.with(|c| c.get());
        }
        let d = if alg == Algorithm::Myers {
            match s {
                WorkShape::Small { .. } => n + m - 2 * ref_lcs(&old, &new),
                // skeleton family: the reported script is checked minimal by C03 on small
                // inputs; here D is the reported script size (an upper bound on the true D
                // would weaken the claim, so Myers' own minimality is relied upon)
                _ => mon.deleted + mon.inserted,
            }
        } else {
            mon.deleted + mon.inserted
        };
        let c = konst(if alg == Algorithm::Myers { "c19_myers_C" } else { "c19_patience_C" });
        let bound = c * (n as u64 + m as u64 + 1) * (d as u64 + 1);
        engine::stat_max(
            &format!("{}_{}_comparisons_x100_per_(N+M+1)(D+1)", alg_name(alg), match s { WorkShape::Small { .. } => "small", WorkShape::Skeleton { .. } => "skeleton", WorkShape::Repeats { .. } => "repeats", WorkShape::Scattered { .. } => "scattered", WorkShape::DupBlock { .. } => "dupblock", WorkShape::Long { .. } => "long" }),
            cmps * 100 / ((n as u64 + m as u64 + 1) * (d as u64 + 1)),
        );
        if d >= 1 {
            engine::witness("paths_with_edits");
        }
        if matches!(s, WorkShape::Skeleton { .. }) {
            engine::witness("skeleton_paths");
        }
        if matches!(s, WorkShape::Repeats { .. }) {
            engine::witness("repeated_item_edit_paths");
        }
        if matches!(s, WorkShape::Scattered { .. }) {
            engine::witness("scattered_edit_paths");
        }
        claim!(
            cmps <= bound,
            "{} performed {} element comparisons on N={} M={} D={}, more than {}*(N+M+1)*(D+1) = {}",
            alg_name(alg), cmps, n, m, d, c, bound
        );
        engine::offer_sample(|| json!({"shape": self.shape_json(s), "path_condition_len": engine::path_condition().len(), "N": n, "M": m, "D": d, "comparisons": cmps, "bound": bound}));
        format!("cmps={} D={} calls={:?}", cmps, d, mon.calls)
    }
    fn cost(&self, s: &WorkShape) -> u64 {
        match s {
            WorkShape::Small { n, m, .. } => (n + m) as u64,
            WorkShape::Skeleton { skel, old_extra, new_extra, .. } => (*skel as u64 / 50) + (old_extra.len() + new_extra.len()) as u64,
            WorkShape::Repeats { skel, .. } => *skel as u64 / 50 + 2,
            WorkShape::Scattered { skel, k, .. } => (*skel * *k) as u64 / 100,
            WorkShape::DupBlock { skel, .. } => *skel as u64 / 25,
            WorkShape::Long { layout, .. } => {
                let (n, m) = layout_lens(layout, 0, 0);
                (n + m) as u64 / 20
            }
        }
    }
    fn shape_json(&self, s: &WorkShape) -> Value {
        match s {
            WorkShape::Small { alg, n, m } => json!({"kind": "small", "alg": alg_name(*alg), "n": n, "m": m}),
            WorkShape::Skeleton { alg, skel, old_extra, new_extra } => json!({"kind": "skeleton", "alg": alg_name(*alg), "skel": skel, "old_extra": old_extra, "new_extra": new_extra}),
            WorkShape::DupBlock { alg, skel, tail } => json!({"kind": "dupblock", "alg": alg_name(*alg), "skel": skel, "tail": tail}),
            WorkShape::Long { alg, layout } => json!({"kind": "long", "alg": alg_name(*alg), "layout": layout.to_json()}),
            WorkShape::Scattered { alg, skel, k } => json!({"kind": "scattered", "alg": alg_name(*alg), "skel": skel, "k": k}),
            WorkShape::Repeats { alg, skel, pos, old_word, new_word } => json!({"kind": "repeats", "alg": alg_name(*alg), "skel": skel, "pos": pos, "old_word": old_word, "new_word": new_word}),
        }
    }
    fn shape_from(&self, v: &Value) -> WorkShape {
        let alg = alg_from(v["alg"].as_str().unwrap());
        if v["kind"] == "long" {
            WorkShape::Long { alg, layout: Layout::from_json(&v["layout"]) }
        } else if v["kind"] == "small" {
            WorkShape::Small { alg, n: v["n"].as_u64().unwrap() as usize, m: v["m"].as_u64().unwrap() as usize }
        } else if v["kind"] == "dupblock" {
            WorkShape::DupBlock { alg, skel: v["skel"].as_u64().unwrap() as usize, tail: v["tail"].as_u64().unwrap() as usize }
        } else if v["kind"] == "scattered" {
            WorkShape::Scattered { alg, skel: v["skel"].as_u64().unwrap() as usize, k: v["k"].as_u64().unwrap() as usize }
        } else if v["kind"] == "repeats" {
            let g = |k: &str| v[k].as_array().unwrap().iter().map(|x| x.as_u64().unwrap() as u8).collect();
            WorkShape::Repeats { alg, skel: v["skel"].as_u64().unwrap() as usize, pos: v["pos"].as_u64().unwrap() as u8, old_word: g("old_word"), new_word: g("new_word") }
        } else {
            let g = |k: &str| v[k].as_array().unwrap().iter().map(|x| x.as_u64().unwrap() as u8).collect();
            WorkShape::Skeleton { alg, skel: v["skel"].as_u64().unwrap() as usize, old_extra: g("old_extra"), new_extra: g("new_extra") }
        }
    }
    fn describe(&self, s: &WorkShape, ints: &[i64], _b: &[bool]) -> Value {
        match s {
            WorkShape::Small { n, m, .. } => describe_inputs(*n, *m, PLAIN, ints),
            WorkShape::Skeleton { skel, .. } => json!({"skeleton_items": &ints[..(*skel).min(ints.len())].len(), "free_items": &ints[(*skel).min(ints.len())..]}),
            WorkShape::Scattered { skel, k, .. } => json!({"skeleton_items": skel, "scattered_substitutions": k}),
            WorkShape::DupBlock { skel, tail, .. } => json!({"block_of_different_items_occurring_twice": skel, "extra_items_at_the_end_of_new": tail}),
            WorkShape::Long { layout, .. } => describe_inputs(0, 0, *layout, ints),
            WorkShape::Repeats { skel, pos, old_word, new_word, .. } => json!({"skeleton_items": skel, "word_position": match *pos { 1 => "middle", 2 => "end", _ => "before the last skeleton item" }, "old_word": old_word, "new_word": new_word, "values_of_the_two_free_symbols": &ints[(*skel).min(ints.len())..]}),
        }
    }
    fn recheck_every(&self, _tier: Tier) -> u64 {
        0 // comparison counts legitimately differ between constant and value hashing
    }
    fn meta(&self, tier: Tier) -> Meta {
        Meta {
            functions: vec![
                "similar::algorithms::myers::{diff_deadline, conquer, find_middle_snake}",
                "similar::algorithms::patience::diff_deadline (+ unique, Patience hook)",
                "similar::algorithms::utils::{common_prefix_len, common_suffix_len}",
            ],
            bounds: format!("(f) the long structured families of common.rs::long_layouts (about 24 (thorough 47) inputs of 40..600 items a side: repeated-item stretches between unique items, unique items moved across a repetitive body, mostly different inputs with few common items, chains in which every value occurs twice, runs / periodic stretches, doubled items / blocks, every 16th item replaced); (a) every input with n,m in 0..={} (Patience 0..=5), D from a reference LCS (Myers) or the reported script (Patience); (e) duplicated block: 100 (thorough up to 400) different items occurring twice on both sides, 0..2 extra items on the new side; (d) scattered edits: 200 (thorough up to 800) pairwise-different items with 10 / 30 (40) evenly scattered substitutions, so D = 2k grows; (c) repeated-item edits: a skeleton of 100 (thorough 50/100/200) pairwise-different items with a word of length 2..=3 (4), or of length 4..=5 (5..=6) in which every symbol is repeated on both sides, over two free symbols spliced into the middle, at the end, or before the last skeleton item, old and new words of the same length differing in one or two places; (b) skeleton family: {} shared pairwise-distinct items (one z3 distinct) on both sides plus up to {} free symbolic items at front/middle/end of either side, all values of the free items; comparisons counted at PartialEq/Ord of the element type; constants C={} (Myers), C={} (Patience) from constants.json", match tier { Tier::Quick => 5, Tier::Thorough => 6 }, match tier { Tier::Quick => "50/100/200", Tier::Thorough => "50/100/200/400/800" }, match tier { Tier::Quick => 2, Tier::Thorough => 3 }, konst("c19_myers_C"), konst("c19_patience_C")),
            outside: "periodic, small-alphabet, unrelated and block-move inputs of hundreds or thousands of items: the number of equality patterns explodes, a path-enumerating symbolic executor cannot cover them; (a) says nothing about growth and (b) is one family. Hash-map work inside Patience's unique() with a constant hash is quadratic by construction of the harness and is not counted (only element comparisons made by the algorithm's own code and by HashMap key equality are)".into(),
            assumptions: vec!["a comparison = one call of PartialEq::eq / Ord::cmp on the element type".into()],
            required_witnesses: vec!["paths_with_edits", "skeleton_paths", "repeated_item_edit_paths", "scattered_edit_paths", "long_structured_paths"],
            rule: "one state = one explored path; the claim is a per-path inequality on the measured comparison count".into(),
        }
    }
}

// ------------------------------------------------------------------ C20

#[derive(Clone, Debug)]
pub struct DetShape {
    pub alg: Algorithm,
    pub n: usize,
    pub m: usize,
    /// Some(v): `n` pairwise different items; new = old with three adjacent pairs swapped and four
    /// items replaced by fresh different ones (positions depend on the variant v): many unique
    /// items on both sides with several equally good alignments, a single path
    pub permuted: Option<usize>,
    /// Some: a long structured input of common.rs::long_layouts (single path)
    pub long: Option<Layout>,
}
pub struct C20;

impl Prop for C20 {
    type Shape = DetShape;
    fn id(&self) -> &'static str {
        "C20"
    }
    fn shapes(&self, tier: Tier) -> Vec<DetShape> {
        let max = match tier {
            Tier::Quick => 4,
            Tier::Thorough => 5,
        };
        let mut v = vec![];
        for alg in ALGS {
            for n in 0..=max {
                for m in 0..=max {
                    v.push(DetShape { alg, n, m, permuted: None, long: None });
                }
            }
            let sizes: &[usize] = match tier {
                Tier::Quick => &[32, 48],
                Tier::Thorough => &[32, 48, 64, 96],
            };
            for &n in sizes {
                for variant in 0..4 {
                    v.push(DetShape { alg, n, m: n, permuted: Some(variant), long: None });
                }
            }
            for layout in long_layouts(tier == Tier::Thorough) {
                let (n, m) = layout_lens(&layout, 0, 0);
                if alg == Algorithm::Lcs && n * m > 60_000 {
                    continue;
                }
                if matches!(layout, Layout::Long { pad: 0, .. }) || matches!(layout, Layout::Long { pad, .. } if pad & 32 != 0) {
                    v.push(DetShape { alg, n, m, permuted: None, long: Some(layout) });
                }
            }
        }
        v
    }
    fn run(&self, s: &DetShape) -> String {
        reset_hooks();
        // the symbolic items hash to a constant, also when a counterexample is replayed: an
        // item type whose Hash is coarser than its Eq is lawful, and the ops must not depend on it
        engine::keep_constant_hash_in_replay();
        let mut pooled_ops: Option<Vec<DiffOp>> = None;
        let (old, mut new) = match s.long {
            Some(layout) => {
                let inp = make_inputs(0, 0, layout);
                engine::witness("long_structured_paths");
                if matches!(inp.old, Seq::Pooled(_)) {
                    // the same items behind lookups into one interned pool (equal items are the same
                    // object in memory, on both sides), diffed at their range offsets
                    let raw = similar::capture_diff(s.alg, &inp.old, inp.or.clone(), &inp.new, inp.nr.clone());
                    let (so, sn) = (inp.or.start, inp.nr.start);
                    pooled_ops = Some(raw.iter().map(|op| match *op {
                        DiffOp::Equal { old_index, new_index, len } => DiffOp::Equal { old_index: old_index - so, new_index: new_index - sn, len },
                        DiffOp::Delete { old_index, old_len, new_index } => DiffOp::Delete { old_index: old_index - so, old_len, new_index: new_index - sn },
                        DiffOp::Insert { old_index, new_index, new_len } => DiffOp::Insert { old_index: old_index - so, new_index: new_index - sn, new_len },
                        DiffOp::Replace { old_index, old_len, new_index, new_len } => DiffOp::Replace { old_index: old_index - so, old_len, new_index: new_index - sn, new_len },
                    }).collect());
                    engine::witness("interned_pool_lookup_paths");
                }
                (inp.old_items.clone(), inp.new_items.clone())
            }
            None => (Sym::fresh_vec(s.n), Sym::fresh_vec(s.m)),
        };
        if let Some(variant) = s.permuted {
            let all: Vec<u32> = old.iter().chain(new.iter()).map(|x| x.0).collect();
            engine::assume(&F::Distinct(all));
            let fresh = new.clone();
            new = old.clone();
            let n = s.n;
            for j in 0..3 {
                let p = (4 + 8 * j + variant) % (n - 1);
                new.swap(p, p + 1);
            }
            for j in 0..4 {
                let p = (8 * j + 3 * variant + 1) % n;
                new[p] = fresh[p];
            }
            engine::witness("large_permuted_paths");
        }
        let ops = capture_diff_slices(s.alg, &old, &new);
        // repeated call: fresh randomly seeded hash maps inside, same decisions => same ops
        let ops2 = capture_diff_slices(s.alg, &old, &new);
        claim!(ops == ops2, "two calls on the same inputs returned different ops: {:?} vs {:?}", ops, ops2);
        if let Some(p) = &pooled_ops {
            claim!(*p == ops, "the same items behind lookups into an interned pool (shifted ranges) give different ops than as plain slices: {:?} vs {:?}", p, ops);
        }
        // third call on another thread (fresh thread-local hasher keys); only natively,
        // the symbolic engine is thread-local
        if ops.iter().any(|o| o.tag() != DiffTag::Equal) {
            engine::witness("paths_with_changes");
        }
        // instantiate the path's model with plain values of two different types
        // (different hashes, same equalities and order) and diff them with the real code
        engine::pin_model();
        let ov: Vec<i64> = old.iter().map(|x| engine::value_of(x.0)).collect();
        let nv: Vec<i64> = new.iter().map(|x| engine::value_of(x.0)).collect();
        let lo = ov.iter().chain(nv.iter()).copied().min().unwrap_or(0);
        let ops_i = capture_diff_slices(s.alg, &ov, &nv);
        claim!(ops_i == ops, "i64 items with the path's equality pattern give different ops: {:?} vs symbolic {:?} (old {:?} new {:?})", ops_i, ops, ov, nv);
        let os: Vec<String> = ov.iter().map(|v| format!("{:020}", (v - lo) as u64 * 7 + 3)).collect();
        let ns: Vec<String> = nv.iter().map(|v| format!("{:020}", (v - lo) as u64 * 7 + 3)).collect();
        let ops_s = capture_diff_slices(s.alg, &os, &ns);
        claim!(ops_s == ops, "String items (order-preserving injective relabelling) give different ops: {:?} vs {:?} (old {:?} new {:?})", ops_s, ops, os, ns);
        // further order-preserving injective relabellings v -> a*v + b (other values, other hashes)
        for (a, b) in [(3i64, 1_000_003i64), (5, 77), (11, 9), (13, 123_456_789), (17, 5), (1_000_003, 0), (2, -40_000_000_000)] {
            let oa: Vec<i64> = ov.iter().map(|v| a * (v - lo) + b).collect();
            let na: Vec<i64> = nv.iter().map(|v| a * (v - lo) + b).collect();
            let ops_a = capture_diff_slices(s.alg, &oa, &na);
            claim!(ops_a == ops, "relabelling v -> {}*v + {} gives different ops: {:?} vs {:?} (old {:?} new {:?})", a, b, ops_a, ops, oa, na);
        }
        let (ov2, nv2) = (ov.clone(), nv.clone());
        let alg = s.alg;
        let ops_t = std::thread::spawn(move || capture_diff_slices(alg, &ov2, &nv2)).join().unwrap();
        claim!(ops_t == ops, "another thread computed different ops: {:?} vs {:?}", ops_t, ops);
        engine::offer_sample(|| json!({"shape": self.shape_json(s), "path_condition": engine::path_condition(), "ops": ops_json(&ops), "model_old": ov, "model_new": nv}));
        format!("{:?}", ops)
    }
    fn cost(&self, s: &DetShape) -> u64 {
        (s.n + s.m) as u64
    }
    fn shape_json(&self, s: &DetShape) -> Value {
        json!({"alg": alg_name(s.alg), "n": s.n, "m": s.m, "permuted": s.permuted, "long": s.long.map(|l| l.to_json())})
    }
    fn shape_from(&self, v: &Value) -> DetShape {
        DetShape { alg: alg_from(v["alg"].as_str().unwrap()), n: v["n"].as_u64().unwrap() as usize, m: v["m"].as_u64().unwrap() as usize, permuted: v["permuted"].as_u64().map(|x| x as usize), long: if v["long"].is_object() { Some(Layout::from_json(&v["long"])) } else { None } }
    }
    fn describe(&self, s: &DetShape, ints: &[i64], _b: &[bool]) -> Value {
        describe_inputs(s.n, s.m, s.long.unwrap_or(PLAIN), ints)
    }
    fn recheck_every(&self, _tier: Tier) -> u64 {
        1 // every leaf is also re-executed natively (items keep their coarse hash; the i64 / String instantiations hash by value)
    }
    fn meta(&self, tier: Tier) -> Meta {
        Meta {
            functions: vec![
                "similar::capture_diff_slices -> Compact<Replace<Capture>> + myers/patience/lcs",
                "similar::algorithms::utils::unique (std HashMap, RandomState) inside patience",
            ],
            bounds: format!("3 algorithms x n,m in 0..={} (plus inputs of 32 / 48 (thorough up to 96) pairwise different items with three swapped adjacent pairs and four replaced items, 4 variants; plus the long structured families of common.rs::long_layouts: about 24 (thorough 47) inputs of 40..600 items a side, e.g. 300 different items a side with 1 or 3 common interior items); on every explored path (= equality pattern): two symbolic executions, one native re-execution of the Sym items with value hashing, plus the path's model instantiated as i64, as order-preserving String relabelling and under seven affine relabellings v -> a*v+b, diffed natively (also on a second thread); all must return the path's ops; ten of the structured inputs are also diffed through lookups into one interned pool shared by both sides (equal items are the same object in memory) at shifted range offsets", match tier { Tier::Quick => 4, Tier::Thorough => 5 }),
            outside: "quantification over hasher seeds and thread schedules is NOT decided (they are not inputs a solver controls here: each execution draws fresh RandomState keys, that is all); the str-vs-[u8] text clause is reduced to C06's tokenizer equivalence plus this relabelling clause".into(),
            assumptions: vec!["a symbolic path stands for every input with its equality/order pattern because Sym carries no value".into()],
            required_witnesses: vec!["paths_with_changes", "large_permuted_paths", "long_structured_paths", "interned_pool_lookup_paths"],
            rule: "one state = one equality pattern (explored path); 5 executions of the real code per state".into(),
        }
    }
}

// ------------------------------------------------------------------ C14 (IdentifyDistinct part)

#[derive(Clone, Debug)]
pub struct IdShape {
    pub n: usize,
    pub m: usize,
    pub off_o: usize,
    pub off_n: usize,
    pub width: u8,
}
pub struct IdDistinct;

fn check_ids<I: PartialEq + Copy + std::fmt::Debug>(ids_o: &[I], ids_n: &[I], a: &[Sym], b: &[Sym]) {
    let all: Vec<(I, Sym)> = ids_o.iter().copied().zip(a.iter().copied()).chain(ids_n.iter().copied().zip(b.iter().copied())).collect();
    for x in 0..all.len() {
        for y in x + 1..all.len() {
            if all[x].0 == all[y].0 {
                engine::must_hold(&F::eq(all[x].1 .0, all[y].1 .0), &format!("two items got the same integer {:?} but need not be equal (positions {} and {} of old++new)", all[x].0, x, y));
            } else {
                engine::must_hold(&F::ne(all[x].1 .0, all[y].1 .0), &format!("two items got different integers {:?}/{:?} but can be equal (positions {} and {} of old++new)", all[x].0, all[y].0, x, y));
            }
        }
    }
}

impl Prop for IdDistinct {
    type Shape = IdShape;
    fn id(&self) -> &'static str {
        "C14a"
    }
    fn shapes(&self, tier: Tier) -> Vec<IdShape> {
        let max = match tier {
            Tier::Quick => 4,
            Tier::Thorough => 5,
        };
        let mut v = vec![];
        for n in 0..=max {
            for m in 0..=max {
                for (off_o, off_n) in [(0, 0), (1, 3), (3, 0)] {
                    for width in [8u8, 16, 32] {
                        v.push(IdShape { n, m, off_o, off_n, width });
                    }
                }
            }
        }
        v
    }
    fn run(&self, s: &IdShape) -> String {
        reset_hooks();
        let inp = make_inputs(s.n, s.m, Layout::Slice { pre_o: s.off_o, post_o: 1, pre_n: s.off_n, post_n: 0 });
        macro_rules! go {
            ($t:ty) => {{
                let h = IdentifyDistinct::<$t>::new(&inp.old, inp.or.clone(), &inp.new, inp.nr.clone());
                claim!(h.old_range() == inp.or && h.new_range() == inp.nr, "IdentifyDistinct changed the ranges: {:?}/{:?} vs {:?}/{:?}", h.old_range(), h.new_range(), inp.or, inp.nr);
                let io: Vec<$t> = inp.or.clone().map(|i| h.old_lookup()[i]).collect();
                let jn: Vec<$t> = inp.nr.clone().map(|i| h.new_lookup()[i]).collect();
                check_ids(&io, &jn, &inp.old_items, &inp.new_items);
                format!("{:?} {:?}", io, jn)
            }};
        }
        let obs = match s.width {
            8 => go!(u8),
            16 => go!(u16),
            _ => go!(u32),
        };
        if s.n + s.m >= 2 {
            engine::witness("paths_with_two_or_more_items");
        }
        engine::offer_sample(|| json!({"shape": self.shape_json(s), "path_condition": engine::path_condition(), "ids": obs.clone()}));
        obs
    }
    fn cost(&self, s: &IdShape) -> u64 {
        (s.n + s.m) as u64
    }
    fn shape_json(&self, s: &IdShape) -> Value {
        json!({"n": s.n, "m": s.m, "off_o": s.off_o, "off_n": s.off_n, "width": s.width})
    }
    fn shape_from(&self, v: &Value) -> IdShape {
        let g = |k: &str| v[k].as_u64().unwrap() as usize;
        IdShape { n: g("n"), m: g("m"), off_o: g("off_o"), off_n: g("off_n"), width: g("width") as u8 }
    }
    fn describe(&self, s: &IdShape, ints: &[i64], _b: &[bool]) -> Value {
        describe_inputs(s.n, s.m, Layout::Slice { pre_o: s.off_o, post_o: 1, pre_n: s.off_n, post_n: 0 }, ints)
    }
    fn meta(&self, tier: Tier) -> Meta {
        Meta {
            functions: vec!["similar::algorithms::IdentifyDistinct::<u8|u16|u32>::{new, old_lookup, new_lookup, old_range, new_range} (Key enum Hash/PartialEq, std HashMap, OffsetLookup)"],
            bounds: format!("n,m in 0..={} symbolic items, range offsets (0,0),(1,3),(3,0), Int in {{u8,u16,u32}}: for every pair of positions within and across the sides, ids equal iff the solver entails the items equal (both directions by must_hold)", match tier { Tier::Quick => 4, Tier::Thorough => 5 }),
            outside: "more distinct items than the integer type can count (documented precondition); longer inputs".into(),
            assumptions: vec!["constant Hash (all keys collide; equality resolves every lookup)".into()],
            required_witnesses: vec!["paths_with_two_or_more_items"],
            rule: "one state = one equality pattern".into(),
        }
    }
}
