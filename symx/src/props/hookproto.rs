//! C08 — hook protocol: finish once and last; a hook error aborts the diff unchanged.
use super::{Meta, Prop, Tier};
use crate::claim;
use crate::common::*;
use crate::engine::{self, Atom, F};
use crate::props::c01::describe_inputs;
use serde_json::{json, Value};
use similar::algorithms::{self, Compact, DiffHook, NoFinishHook, Replace};
use similar::Algorithm;

#[derive(Clone, Copy, Debug, PartialEq, Eq)]
pub enum Stack {
    Bare,
    MutRef,
    Replace,
    Compact,
    CompactReplace,
    NoFinish,
    /// NoFinishHook around Replace around the recorder
    NoFinishReplace,
}
const STACKS: [Stack; 7] = [Stack::Bare, Stack::MutRef, Stack::Replace, Stack::Compact, Stack::CompactReplace, Stack::NoFinish, Stack::NoFinishReplace];
impl Stack {
    fn name(&self) -> &'static str {
        match self {
            Stack::Bare => "none",
            Stack::MutRef => "&mut",
            Stack::Replace => "Replace",
            Stack::Compact => "Compact",
            Stack::CompactReplace => "Compact<Replace>",
            Stack::NoFinish => "NoFinishHook",
            Stack::NoFinishReplace => "NoFinishHook<Replace>",
        }
    }
    fn from(s: &str) -> Stack {
        *STACKS.iter().find(|x| x.name() == s).unwrap()
    }
}

#[derive(Clone, Debug)]
pub struct Shape {
    pub alg: Algorithm,
    pub n: usize,
    pub m: usize,
    pub stack: Stack,
    /// run algorithms::diff_deadline under the symbolic clock (every expiry point)
    pub clock: bool,
    /// Some: a long structured input (common.rs::long_layouts) instead of n x m free items
    pub long: Option<Layout>,
}

#[derive(Debug, PartialEq, Eq, Clone)]
pub struct MyErr(usize);

/// Recorder that fails at call number `k` (a z3 Int).  `overrides_replace`
/// tells whether it implements `replace` itself or relies on the default.
struct Rec<const OVERRIDE: bool> {
    k: u32,
    calls: Vec<Call>,
    failed_at: Option<usize>,
    finishes: u32,
}
impl<const O: bool> Rec<O> {
    fn new(k: u32) -> Self {
        Rec { k, calls: vec![], failed_at: None, finishes: 0 }
    }
    fn step(&mut self, c: Call) -> Result<(), MyErr> {
        claim!(
            self.failed_at.is_none(),
            "hook called again ({:?}) after it returned an error at call {} (calls {:?})",
            c, self.failed_at.unwrap(), self.calls
        );
        claim!(
            self.finishes == 0,
            "hook called ({:?}) after finish (calls {:?})",
            c, self.calls
        );
        let i = self.calls.len();
        self.calls.push(c);
        if c == Call::Finish {
            self.finishes += 1;
        }
        if engine::decide(Atom::EqC(self.k, i as i64)) {
            self.failed_at = Some(i);
            return Err(MyErr(i));
        }
        Ok(())
    }
}
impl DiffHook for Rec<false> {
    type Error = MyErr;
    fn equal(&mut self, a: usize, b: usize, c: usize) -> Result<(), MyErr> {
        self.step(Call::Equal(a, b, c))
    }
    fn delete(&mut self, a: usize, b: usize, c: usize) -> Result<(), MyErr> {
        self.step(Call::Delete(a, b, c))
    }
    fn insert(&mut self, a: usize, b: usize, c: usize) -> Result<(), MyErr> {
        self.step(Call::Insert(a, b, c))
    }
    fn finish(&mut self) -> Result<(), MyErr> {
        self.step(Call::Finish)
    }
}
impl DiffHook for Rec<true> {
    type Error = MyErr;
    fn equal(&mut self, a: usize, b: usize, c: usize) -> Result<(), MyErr> {
        self.step(Call::Equal(a, b, c))
    }
    fn delete(&mut self, a: usize, b: usize, c: usize) -> Result<(), MyErr> {
        self.step(Call::Delete(a, b, c))
    }
    fn insert(&mut self, a: usize, b: usize, c: usize) -> Result<(), MyErr> {
        self.step(Call::Insert(a, b, c))
    }
    fn replace(&mut self, a: usize, b: usize, c: usize, d: usize) -> Result<(), MyErr> {
        self.step(Call::Replace(a, b, c, d))
    }
    fn finish(&mut self) -> Result<(), MyErr> {
        self.step(Call::Finish)
    }
}

fn drive<D: DiffHook<Error = MyErr>>(alg: Algorithm, stack: Stack, rec: &mut D, inp: &Inputs) -> Result<(), MyErr> {
    drive_dl(alg, stack, rec, inp, None)
}

fn drive_dl<D: DiffHook<Error = MyErr>>(alg: Algorithm, stack: Stack, rec: &mut D, inp: &Inputs, dl: Option<std::time::Instant>) -> Result<(), MyErr> {
    let (o, or, n, nr) = (&inp.old, inp.or.clone(), &inp.new, inp.nr.clone());
    if dl.is_some() {
        return match stack {
            Stack::Bare => algorithms::diff_deadline(alg, rec, o, or, n, nr, dl),
            Stack::MutRef => {
                let mut r: &mut D = rec;
                algorithms::diff_deadline(alg, &mut r, o, or, n, nr, dl)
            }
            Stack::Replace => algorithms::diff_deadline(alg, &mut Replace::new(rec), o, or, n, nr, dl),
            Stack::Compact => algorithms::diff_deadline(alg, &mut Compact::new(rec, o, n), o, or, n, nr, dl),
            Stack::CompactReplace => algorithms::diff_deadline(alg, &mut Compact::new(Replace::new(rec), o, n), o, or, n, nr, dl),
            Stack::NoFinish => algorithms::diff_deadline(alg, &mut NoFinishHook::new(rec), o, or, n, nr, dl),
            Stack::NoFinishReplace => algorithms::diff_deadline(alg, &mut NoFinishHook::new(Replace::new(rec)), o, or, n, nr, dl),
        };
    }
    match stack {
        Stack::Bare => algorithms::diff(alg, rec, o, or, n, nr),
        Stack::MutRef => {
            let mut r: &mut D = rec;
            algorithms::diff(alg, &mut r, o, or, n, nr)
        }
        Stack::Replace => algorithms::diff(alg, &mut Replace::new(rec), o, or, n, nr),
        Stack::Compact => algorithms::diff(alg, &mut Compact::new(rec, o, n), o, or, n, nr),
        Stack::CompactReplace => algorithms::diff(alg, &mut Compact::new(Replace::new(rec), o, n), o, or, n, nr),
        Stack::NoFinish => algorithms::diff(alg, &mut NoFinishHook::new(rec), o, or, n, nr),
        Stack::NoFinishReplace => algorithms::diff(alg, &mut NoFinishHook::new(Replace::new(rec)), o, or, n, nr),
    }
}

pub struct C08;

impl Prop for C08 {
    type Shape = Shape;
    fn id(&self) -> &'static str {
        "C08"
    }
    fn shapes(&self, tier: Tier) -> Vec<Shape> {
        let max = match tier {
            Tier::Quick => 4,
            Tier::Thorough => 5,
        };
        let mut v = vec![];
        for alg in ALGS {
            for n in 0..=max {
                for m in 0..=max {
                    for stack in STACKS {
                        v.push(Shape { alg, n, m, stack, clock: false, long: None });
                        if n <= 3 && m <= 3 && matches!(stack, Stack::Bare | Stack::Replace | Stack::CompactReplace) {
                            v.push(Shape { alg, n, m, stack, clock: true, long: None });
                        }
                    }
                }
            }
        }
        // long structured inputs: the hook never fails or fails at finish / at a late call
        for alg in ALGS {
            for layout in long_layouts(tier == Tier::Thorough) {
                let (n, m) = layout_lens(&layout, 0, 0);
                if (alg == Algorithm::Lcs && n * m > 60_000) || n + m > 1300 {
                    continue; // every failing position re-runs the diff: the deepest searches are left to C01 / C02
                }
                for stack in [Stack::Bare, Stack::CompactReplace] {
                    v.push(Shape { alg, n, m, stack, clock: false, long: Some(layout) });
                }
            }
        }
        v
    }

    fn run(&self, s: &Shape) -> String {
        reset_hooks();
        let inp = make_inputs(s.n, s.m, s.long.unwrap_or(Layout::Slice { pre_o: 0, post_o: 0, pre_n: 0, post_n: 0 }));
        let k = engine::fresh_int();
        engine::assume(&F::not(F::A(Atom::LtC(k, 0))));
        if s.long.is_some() {
            // every failing position of the (long) call stream is one path, plus "never fails"
            engine::witness("long_structured_paths");
        }
        let mut rec = Rec::<true>::new(k);
        let r = if s.clock {
            let clock = install_clock();
            let r = drive_dl(s.alg, s.stack, &mut rec, &inp, any_instant());
            similar::verif_clock::install(None);
            if clock.fired_at.get().is_some() {
                engine::witness("paths_where_the_deadline_fired");
            }
            r
        } else {
            drive(s.alg, s.stack, &mut rec, &inp)
        };
        let suppresses_finish = matches!(s.stack, Stack::NoFinish | Stack::NoFinishReplace);
        match &r {
            Err(e) => {
                engine::witness("paths_where_a_hook_call_failed");
                claim!(
                    rec.failed_at == Some(e.0),
                    "diff returned error {:?} but the hook failed at {:?} (calls {:?})",
                    e, rec.failed_at, rec.calls
                );
                claim!(
                    rec.calls.len() == e.0 + 1,
                    "hook saw {} calls although it failed at call {} (calls {:?})",
                    rec.calls.len(), e.0, rec.calls
                );
                if rec.calls.last() == Some(&Call::Finish) {
                    engine::witness("paths_where_finish_failed");
                }
            }
            Ok(()) => {
                claim!(
                    rec.failed_at.is_none(),
                    "the hook failed at call {:?} but the diff returned Ok (calls {:?})",
                    rec.failed_at, rec.calls
                );
                if s.clock {
                    claim!(
                        rec.finishes == 1 && rec.calls.last() == Some(&Call::Finish),
                        "finish must be called exactly once and last, also when the deadline expires (calls {:?})",
                        rec.calls
                    );
                } else if suppresses_finish {
                    claim!(rec.finishes == 0, "NoFinishHook let finish through (calls {:?})", rec.calls);
                    // everything except finish is forwarded: same stream as without the wrapper, minus Finish
                    let mut rec2 = Rec::<true>::new(k);
                    let inner = if s.stack == Stack::NoFinish { Stack::Bare } else { Stack::Replace };
                    let r2 = drive(s.alg, inner, &mut rec2, &inp);
                    if r2.is_ok() {
                        let mut expect = rec2.calls.clone();
                        // the Replace adapter flushes its pending run at finish, which the wrapper suppresses
                        if inner == Stack::Bare {
                            claim!(expect.pop() == Some(Call::Finish), "inner run did not end with finish");
                            claim!(expect == rec.calls, "NoFinishHook changed the forwarded calls: {:?} vs {:?}", rec.calls, expect);
                        }
                    }
                } else {
                    claim!(
                        rec.finishes == 1 && rec.calls.last() == Some(&Call::Finish),
                        "finish must be called exactly once and last (calls {:?})",
                        rec.calls
                    );
                }
                engine::witness("paths_that_succeeded");
                // one adapter object used for several diffs in a row (a non-empty one, one with two
                // empty ranges, the first again): every diff ends with exactly one finish, and the
                // third diff's calls are the first's
                if !s.clock && s.long.is_none() && matches!(s.stack, Stack::Replace | Stack::CompactReplace) {
                    struct Plain(Vec<Call>);
                    impl DiffHook for Plain {
                        type Error = MyErr;
                        fn equal(&mut self, a: usize, b: usize, c: usize) -> Result<(), MyErr> {
                            self.0.push(Call::Equal(a, b, c));
                            Ok(())
                        }
                        fn delete(&mut self, a: usize, b: usize, c: usize) -> Result<(), MyErr> {
                            self.0.push(Call::Delete(a, b, c));
                            Ok(())
                        }
                        fn insert(&mut self, a: usize, b: usize, c: usize) -> Result<(), MyErr> {
                            self.0.push(Call::Insert(a, b, c));
                            Ok(())
                        }
                        fn replace(&mut self, a: usize, b: usize, c: usize, d: usize) -> Result<(), MyErr> {
                            self.0.push(Call::Replace(a, b, c, d));
                            Ok(())
                        }
                        fn finish(&mut self) -> Result<(), MyErr> {
                            self.0.push(Call::Finish);
                            Ok(())
                        }
                    }
                    let mut plain = Plain(vec![]);
                    {
                        let mut rp = Replace::new(&mut plain);
                        let (o, n) = (&inp.old, &inp.new);
                        let e_o = inp.or.end..inp.or.end;
                        let e_n = inp.nr.end..inp.nr.end;
                        let r = algorithms::diff(s.alg, &mut rp, o, inp.or.clone(), n, inp.nr.clone())
                            .and_then(|_| algorithms::diff(s.alg, &mut rp, o, e_o, n, e_n))
                            .and_then(|_| algorithms::diff(s.alg, &mut rp, o, inp.or.clone(), n, inp.nr.clone()));
                        claim!(r.is_ok(), "reused adapter returned an error");
                    }
                    let segs: Vec<&[Call]> = plain.0.split_inclusive(|c| *c == Call::Finish).collect();
                    claim!(
                        segs.len() == 3 && segs.iter().all(|x| x.last() == Some(&Call::Finish)),
                        "one Replace adapter used for three diffs in a row (the second with two empty ranges): the hook saw {:?}, expected three runs each ending in one finish",
                        plain.0
                    );
                    claim!(segs[1].len() == 1, "a diff of two empty ranges through a reused adapter produced calls {:?}", segs[1]);
                    claim!(segs[0] == segs[2], "the same diff through a reused adapter gives {:?} the first time and {:?} the third time", segs[0], segs[2]);
                    engine::witness("paths_with_a_reused_adapter");
                }
                // a hook that does not override replace receives a delete followed by an insert
                if !s.clock && matches!(s.stack, Stack::Replace | Stack::CompactReplace) {
                    let mut plain = Rec::<false>::new(k);
                    let r3 = drive(s.alg, s.stack, &mut plain, &inp);
                    if r3.is_ok() {
                        let mut expanded = vec![];
                        for c in &rec.calls {
                            match *c {
                                Call::Replace(o, ol, n, nl) => {
                                    engine::witness("paths_with_default_replace");
                                    expanded.push(Call::Delete(o, ol, n));
                                    expanded.push(Call::Insert(o, n, nl));
                                }
                                c => expanded.push(c),
                            }
                        }
                        claim!(
                            expanded == plain.calls,
                            "default replace is not delete-then-insert with the same arguments: {:?} vs {:?}",
                            plain.calls, expanded
                        );
                    }
                }
            }
        }
        engine::offer_sample(|| json!({"shape": self.shape_json(s), "path_condition": engine::path_condition(), "result": format!("{:?}", r), "hook_calls": format!("{:?}", rec.calls)}));
        format!("{:?} {:?}", r, rec.calls)
    }

    fn cost(&self, s: &Shape) -> u64 {
        (s.n + s.m) as u64
    }
    fn shape_json(&self, s: &Shape) -> Value {
        json!({"alg": alg_name(s.alg), "n": s.n, "m": s.m, "stack": s.stack.name(), "clock": s.clock, "long": s.long.map(|l| l.to_json())})
    }
    fn shape_from(&self, v: &Value) -> Shape {
        Shape {
            alg: alg_from(v["alg"].as_str().unwrap()),
            n: v["n"].as_u64().unwrap() as usize,
            m: v["m"].as_u64().unwrap() as usize,
            stack: Stack::from(v["stack"].as_str().unwrap()),
            clock: v["clock"].as_bool().unwrap_or(false),
            long: if v["long"].is_object() { Some(Layout::from_json(&v["long"])) } else { None },
        }
    }
    fn describe(&self, s: &Shape, ints: &[i64], _b: &[bool]) -> Value {
        let mut d = describe_inputs(s.n, s.m, s.long.unwrap_or(Layout::Slice { pre_o: 0, post_o: 0, pre_n: 0, post_n: 0 }), ints);
        d["failing_call_index_k"] = json!(if s.long.is_some() { ints.last() } else { ints.get(s.n + s.m) });
        if s.clock {
            d["deadline_probe_outcomes"] = json!(_b);
        }
        d
    }
    fn meta(&self, tier: Tier) -> Meta {
        Meta {
            functions: vec![
                "similar::algorithms::diff -> myers/patience/lcs::diff_deadline (error propagation with `?`)",
                "similar::algorithms::{Replace, Compact, NoFinishHook} as DiffHook, impl DiffHook for &mut D",
                "similar::algorithms::DiffHook::replace (default body)",
                "similar::DiffOp::apply_to_hook (inside Compact::finish)",
                "patience::Patience hook (equal/finish forwarding errors)",
            ],
            bounds: format!("3 algorithms x n,m in 0..={} x adapter stacks {{none, &mut, Replace, Compact, Compact<Replace>, NoFinishHook, NoFinishHook<Replace>}}; the index k of the failing hook call is a z3 Int >= 0, each hook call i decides k == i, so every failing position (incl. finish) and 'never fails' are explored; for n,m<=3 and the stacks none / Replace / Compact<Replace> additionally through algorithms::diff_deadline under the symbolic clock (every expiry point x every failing position); for the Replace stacks also one adapter object reused for three diffs in a row (inputs, two empty ranges, inputs again); plus the long structured families of common.rs::long_layouts (about 30 (thorough 53) inputs of 40..600 items a side, stacks none and Compact<Replace>, every failing position of the call stream)", match tier { Tier::Quick => 4, Tier::Thorough => 5 }),
            outside: "lengths beyond the bound; hooks that fail more than once or panic".into(),
            assumptions: vec!["the failing hook returns its error exactly once".into()],
            required_witnesses: vec!["paths_with_a_reused_adapter", "paths_where_a_hook_call_failed", "paths_where_finish_failed", "paths_that_succeeded", "paths_with_default_replace", "paths_where_the_deadline_fired", "long_structured_paths"],
            rule: "one state = one explored path = one equality pattern x one failing call index; one transition = one solver decision".into(),
        }
    }
}
