//! C05 — rendered unified diffs are well-formed and apply exactly.
use super::{Meta, Prop, Tier};
use crate::claim;
use crate::common::*;
use crate::engine;
use crate::sym::Sym;
use crate::symtxt::{self, SymTxt};
use serde_json::{json, Value};
use similar::{Algorithm, DiffTag, TextDiff};

#[derive(Clone, Copy, Debug, PartialEq, Eq)]
pub enum Term {
    Lf,
    CrLf,
    Cr,
    /// line i ends in LF, CRLF, CR for i mod 3 = 0, 1, 2 (mixed terminators within one text)
    Mixed,
}
impl Term {
    fn s(&self) -> &'static str {
        match self {
            Term::Lf => "\n",
            Term::CrLf => "\r\n",
            Term::Cr => "\r",
            Term::Mixed => unreachable!("per-line"),
        }
    }
    fn at(&self, i: usize) -> &'static str {
        match self {
            Term::Mixed => ["\n", "\r\n", "\r"][i % 3],
            t => t.s(),
        }
    }
    fn name(&self) -> &'static str {
        match self {
            Term::Lf => "lf",
            Term::CrLf => "crlf",
            Term::Cr => "cr",
            Term::Mixed => "mixed",
        }
    }
    fn from(s: &str) -> Term {
        match s {
            "lf" => Term::Lf,
            "crlf" => Term::CrLf,
            "mixed" => Term::Mixed,
            _ => Term::Cr,
        }
    }
}

#[derive(Clone, Copy, Debug, PartialEq, Eq)]
pub struct Side {
    pub lines: usize,
    pub term: Term,
    pub last_unterminated: bool,
    /// line contents have two characters instead of one
    pub wide: bool,
}
impl Side {
    fn pattern(&self) -> String {
        let mut p = String::new();
        for i in 0..self.lines {
            p.push('x');
            if self.wide {
                p.push('x');
            }
            if !(self.last_unterminated && i + 1 == self.lines) {
                p.push_str(self.term.at(i));
            }
        }
        p
    }
    fn to_json(&self) -> Value {
        json!({"lines": self.lines, "term": self.term.name(), "last_unterminated": self.last_unterminated, "wide": self.wide})
    }
    fn from_json(v: &Value) -> Side {
        Side {
            lines: v["lines"].as_u64().unwrap() as usize,
            term: Term::from(v["term"].as_str().unwrap()),
            last_unterminated: v["last_unterminated"].as_bool().unwrap(),
            wide: v["wide"].as_bool().unwrap(),
        }
    }
}

#[derive(Clone, Debug)]
pub struct Shape {
    pub alg: Algorithm,
    pub old: Side,
    pub new: Side,
    pub radius: usize,
    pub header: bool,
    pub bytes: bool,
    /// large-text family (more than 100 lines, TextDiffConfig's interning branch): `pre` pairwise
    /// different lines, a small window, `post` pairwise different lines; window items per side:
    /// 0 = fresh line (differs from every skeleton line), 1 = copy of the skeleton line just before
    /// the window, 2 = copy of the skeleton line just after it.  `old` / `new` are unused then.
    pub big: Option<Big>,
}
#[derive(Clone, Debug, PartialEq, Eq)]
pub struct Big {
    pub pre: usize,
    pub post: usize,
    pub old_w: Vec<u8>,
    pub new_w: Vec<u8>,
}

pub struct C05;

#[derive(Debug)]
struct BodyLine {
    tag: u8,
    /// the line's bytes as they stand in the text (terminator included, none if it lacks one)
    bytes: Vec<u8>,
    no_newline: bool,
}
#[derive(Debug)]
struct Hunk {
    a: usize,
    b: usize,
    c: usize,
    d: usize,
    body: Vec<BodyLine>,
}

const MARKER: &[u8] = b"\\ No newline at end of file\n";

/// A writer that implements only `write` (so `write_vectored`, `write_all`, `write_fmt` are the
/// std defaults) and accepts at most `max` bytes per call: short writes are within the
/// `io::Write` contract, the bytes that arrive must not depend on them.
struct ShortWriter {
    out: Vec<u8>,
    max: usize,
}
impl std::io::Write for ShortWriter {
    fn write(&mut self, buf: &[u8]) -> std::io::Result<usize> {
        let n = buf.len().min(self.max);
        self.out.extend_from_slice(&buf[..n]);
        Ok(n)
    }
    fn flush(&mut self) -> std::io::Result<()> {
        Ok(())
    }
}

fn parse_num(w: &[u8], pos: &mut usize) -> Result<usize, String> {
    let s = *pos;
    while *pos < w.len() && w[*pos].is_ascii_digit() {
        *pos += 1;
    }
    if *pos == s {
        return Err(format!("number expected at byte {}", s));
    }
    Ok(std::str::from_utf8(&w[s..*pos]).unwrap().parse().unwrap())
}
fn expect(w: &[u8], pos: &mut usize, lit: &[u8]) -> Result<(), String> {
    if w[*pos..].starts_with(lit) {
        *pos += lit.len();
        Ok(())
    } else {
        Err(format!("{:?} expected at byte {}", String::from_utf8_lossy(lit), *pos))
    }
}

/// Strict parser of the unified-diff byte stream.
fn parse(w: &[u8]) -> Result<(Option<(Vec<u8>, Vec<u8>)>, Vec<Hunk>), String> {
    let mut pos = 0;
    let mut header = None;
    if w.starts_with(b"--- ") {
        pos = 4;
        let e = w[pos..].iter().position(|&b| b == b'\n').ok_or("unterminated --- line")?;
        let a = w[pos..pos + e].to_vec();
        pos += e + 1;
        expect(w, &mut pos, b"+++ ")?;
        let e = w[pos..].iter().position(|&b| b == b'\n').ok_or("unterminated +++ line")?;
        let b = w[pos..pos + e].to_vec();
        pos += e + 1;
        header = Some((a, b));
    }
    let mut hunks = vec![];
    while pos < w.len() {
        expect(w, &mut pos, b"@@ -")?;
        let a = parse_num(w, &mut pos)?;
        let b = if w.get(pos) == Some(&b',') {
            pos += 1;
            parse_num(w, &mut pos)?
        } else {
            1
        };
        expect(w, &mut pos, b" +")?;
        let c = parse_num(w, &mut pos)?;
        let d = if w.get(pos) == Some(&b',') {
            pos += 1;
            parse_num(w, &mut pos)?
        } else {
            1
        };
        expect(w, &mut pos, b" @@\n")?;
        let mut body = vec![];
        while pos < w.len() && matches!(w[pos], b' ' | b'-' | b'+') {
            let tag = w[pos];
            pos += 1;
            let start = pos;
            loop {
                if pos >= w.len() {
                    return Err(format!("body line starting at byte {} has no line end", start));
                }
                if w[pos] == b'\n' {
                    pos += 1;
                    break;
                }
                if w[pos] == b'\r' {
                    pos += 1;
                    if w.get(pos) == Some(&b'\n') {
                        pos += 1;
                    }
                    break;
                }
                pos += 1;
            }
            let mut bytes = w[start..pos].to_vec();
            let mut no_newline = false;
            if w[pos..].starts_with(MARKER) {
                pos += MARKER.len();
                if bytes.last() != Some(&b'\n') || (bytes.len() >= 2 && bytes[bytes.len() - 2] == b'\r') {
                    return Err(format!("missing-newline marker after a line that ends in its own line break (byte {})", start));
                }
                bytes.pop();
                no_newline = true;
            }
            body.push(BodyLine { tag, bytes, no_newline });
        }
        hunks.push(Hunk { a, b, c, d, body });
    }
    Ok((header, hunks))
}

fn line_has_break(l: &[u8]) -> bool {
    matches!(l.last(), Some(b'\n') | Some(b'\r'))
}

/// Well-formedness and strict application.  `old_lines` / `new_lines` are the
/// exact bytes of the lines of both texts.
fn check_udiff(w: &[u8], old_lines: &[Vec<u8>], new_lines: &[Vec<u8>], radius: usize, header_on: bool, inputs_equal: bool) -> Result<usize, String> {
    let (header, hunks) = parse(w)?;
    if inputs_equal {
        if !w.is_empty() {
            return Err(format!("equal inputs must render as the empty string, got {:?}", String::from_utf8_lossy(w)));
        }
        return Ok(0);
    }
    if hunks.is_empty() {
        return Err("different inputs but no hunk".into());
    }
    match (&header, header_on) {
        (Some((a, b)), true) => {
            if a != b"a.txt" || b != b"b.txt" {
                return Err("file header names altered".into());
            }
        }
        (None, false) => {}
        (Some(_), false) => return Err("file header present although none was configured".into()),
        (None, true) => return Err("file header missing".into()),
    }
    let mut out: Vec<Vec<u8>> = vec![];
    let mut oc = 0usize; // old lines consumed
    for (hi, h) in hunks.iter().enumerate() {
        let n_old = h.body.iter().filter(|l| l.tag != b'+').count();
        let n_new = h.body.iter().filter(|l| l.tag != b'-').count();
        if n_old != h.b || n_new != h.d {
            return Err(format!("hunk {}: header counts -{},{} +{},{} but the body has {} old-side and {} new-side lines", hi, h.a, h.b, h.c, h.d, n_old, n_new));
        }
        if !h.body.iter().any(|l| l.tag != b' ') {
            return Err(format!("hunk {} contains no change", hi));
        }
        let lead = h.body.iter().take_while(|l| l.tag == b' ').count();
        let trail = h.body.iter().rev().take_while(|l| l.tag == b' ').count();
        if lead > radius || trail > radius {
            return Err(format!("hunk {}: {} leading / {} trailing context lines with radius {}", hi, lead, trail, radius));
        }
        for k in 1..h.body.len() {
            if h.body[k - 1].tag == b'+' && h.body[k].tag == b'-' {
                return Err(format!("hunk {}: an insertion precedes a deletion within one run of changes", hi));
            }
        }
        // true start positions (GNU convention: an empty range names the line before it)
        let old_start = if h.b == 0 { h.a } else { h.a.checked_sub(1).ok_or("old start 0 with non-empty range")? };
        if old_start < oc {
            return Err(format!("hunk {}: old start {} overlaps / precedes the previous hunk (already at line {})", hi, h.a, oc));
        }
        if old_start + h.b > old_lines.len() {
            return Err(format!("hunk {}: old range {},{} runs past the {} old lines", hi, h.a, h.b, old_lines.len()));
        }
        // copy the untouched lines before the hunk
        while oc < old_start {
            out.push(old_lines[oc].clone());
            oc += 1;
        }
        let new_start = if h.d == 0 { h.c } else { h.c.checked_sub(1).ok_or("new start 0 with non-empty range")? };
        if new_start != out.len() {
            return Err(format!("hunk {}: new start +{},{} is not the true position (the hunk starts at new line {})", hi, h.c, h.d, out.len() + if h.d == 0 { 0 } else { 1 }));
        }
        for (li, l) in h.body.iter().enumerate() {
            if l.no_newline == line_has_break(&l.bytes) {
                return Err(format!("hunk {} line {}: missing-newline marker inconsistent with the line", hi, li));
            }
            match l.tag {
                b' ' | b'-' => {
                    if oc >= old_lines.len() || old_lines[oc] != l.bytes {
                        return Err(format!("hunk {} line {}: {:?} line does not match old line {} ({:?} vs {:?})", hi, li, l.tag as char, oc + 1, String::from_utf8_lossy(&l.bytes), old_lines.get(oc).map(|x| String::from_utf8_lossy(x).into_owned())));
                    }
                    if l.tag == b' ' {
                        out.push(l.bytes.clone());
                    }
                    oc += 1;
                }
                _ => out.push(l.bytes.clone()),
            }
        }
    }
    while oc < old_lines.len() {
        out.push(old_lines[oc].clone());
        oc += 1;
    }
    if out != new_lines {
        return Err(format!("applying the hunks does not produce the new text: got {:?}, expected {:?}", out.iter().map(|x| String::from_utf8_lossy(x).into_owned()).collect::<Vec<_>>(), new_lines.iter().map(|x| String::from_utf8_lossy(x).into_owned()).collect::<Vec<_>>()));
    }
    // a line lacking its line break may only be the last line of its text
    Ok(hunks.len())
}

impl C05 {
    fn body(&self, s: &Shape, repair: bool) -> String {
        reset_hooks();
        similar::algorithms::verif_swap::set_repair(repair);
        symtxt::reset();
        symtxt::set_byte_mode(s.bytes);
        let (old, new): (Vec<Sym>, Vec<Sym>) = match &s.big {
            None => (symtxt::text_from_pattern(&s.old.pattern()), symtxt::text_from_pattern(&s.new.pattern())),
            Some(b) => {
                use crate::engine::F;
                let line = || -> [Sym; 2] { [symtxt::fresh_char(symtxt::Class::Ord), symtxt::fresh_char(symtxt::Class::Lf)] };
                let skel: Vec<[Sym; 2]> = (0..b.pre + b.post).map(|_| line()).collect();
                engine::assume(&F::Distinct(skel.iter().map(|l| l[0].0).collect()));
                for (i, l) in skel.iter().enumerate() {
                    engine::set_hash_class(l[0].0, i as u64);
                    engine::set_hash_class(l[1].0, 1 << 40);
                }
                let mut fs = vec![];
                let mut side = |w: &Vec<u8>| -> Vec<Sym> {
                    let mut t: Vec<Sym> = skel[..b.pre].iter().flatten().copied().collect();
                    for k in w {
                        match *k {
                            1 if b.pre > 0 => t.extend_from_slice(&skel[b.pre - 1]),
                            2 if b.post > 0 => t.extend_from_slice(&skel[b.pre]),
                            _ => {
                                let l = line();
                                engine::set_hash_class(l[0].0, u64::MAX);
                                engine::set_hash_class(l[1].0, 1 << 40);
                                for sk in &skel {
                                    fs.push(F::ne(l[0].0, sk[0].0));
                                }
                                t.extend_from_slice(&l);
                            }
                        }
                    }
                    t.extend(skel[b.pre..].iter().flatten().copied());
                    t
                };
                let o = side(&b.old_w);
                let n = side(&b.new_w);
                if !fs.is_empty() {
                    engine::assume(&F::And(fs));
                }
                engine::witness("paths_above_the_100_line_threshold");
                (o, n)
            }
        };
        let (ot, nt) = (SymTxt::new(&old), SymTxt::new(&new));
        // symbolic stage: the diff (all equality patterns of the lines, decided by the solver)
        let diff = TextDiff::configure().algorithm(s.alg).diff_lines(ot, nt);
        let ops = diff.ops().to_vec();
        let inputs_equal = ops.iter().all(|o| o.tag() == DiffTag::Equal);
        if similar::algorithms::verif_swap::swaps() > 0 {
            engine::witness("paths_that_took_a_compaction_swap");
        }
        // rendering stage: evaluated on one model of the path (it has no data-dependent branch)
        engine::pin_model();
        let old_lines: Vec<Vec<u8>> = diff.old_slices().iter().map(|t| symtxt::render(t.chars())).collect();
        let new_lines: Vec<Vec<u8>> = diff.new_slices().iter().map(|t| symtxt::render(t.chars())).collect();
        let mut ud = diff.unified_diff();
        ud.context_radius(s.radius);
        if s.header {
            ud.header("a.txt", "b.txt");
        }
        let shown = ud.to_string();
        let mut w: Vec<u8> = vec![];
        ud.to_writer(&mut w).unwrap();
        for max in [usize::MAX, 1, 3] {
            let mut sw = ShortWriter { out: vec![], max };
            ud.to_writer(&mut sw).unwrap();
            claim!(sw.out == w, "to_writer into a writer that only implements write() and takes at most {} bytes per call delivers {:?}, into a Vec<u8> {:?}", max, String::from_utf8_lossy(&sw.out), String::from_utf8_lossy(&w));
        }
        let res = check_udiff(&w, &old_lines, &new_lines, s.radius, s.header, inputs_equal);
        let nh = match res {
            Ok(n) => n,
            Err(e) => engine::fail(format!("to_writer output: {} | output {:?} | ops {:?}", e, String::from_utf8_lossy(&w), ops)),
        };
        claim!(
            shown == String::from_utf8_lossy(&w),
            "Display differs from the lossy decoding of the writer's output: {:?} vs {:?}",
            shown, String::from_utf8_lossy(&w)
        );
        if !s.bytes {
            claim!(shown.as_bytes() == &w[..], "Display and to_writer differ on UTF-8 input");
            // the str front end on the model-instantiated real strings
            let os = String::from_utf8(symtxt::render(&old)).unwrap();
            let ns = String::from_utf8(symtxt::render(&new)).unwrap();
            let direct = similar::udiff::unified_diff(s.alg, &os, &ns, s.radius, if s.header { Some(("a.txt", "b.txt")) } else { None });
            claim!(direct == shown, "udiff::unified_diff on the instantiated strings {:?} / {:?} gives {:?}, the symbolic run {:?}", os, ns, direct, shown);
        }
        // hunk-level API agrees with the whole rendering
        let mut cat = String::new();
        let mut catw: Vec<u8> = vec![];
        for h in ud.iter_hunks() {
            cat.push_str(&h.to_string());
            h.to_writer(&mut catw).unwrap();
            let mut sw = ShortWriter { out: vec![], max: 2 };
            h.to_writer(&mut sw).unwrap();
            let mut hv: Vec<u8> = vec![];
            h.to_writer(&mut hv).unwrap();
            claim!(sw.out == hv, "UnifiedDiffHunk::to_writer into a short-writing writer differs from the Vec<u8> output");
        }
        let strip = |x: &[u8]| -> Vec<u8> {
            if s.header && x.starts_with(b"--- a.txt\n+++ b.txt\n") { x[20..].to_vec() } else { x.to_vec() }
        };
        claim!(cat.as_bytes() == &strip(shown.as_bytes())[..], "concatenated hunk Displays differ from the diff's Display");
        claim!(catw == strip(&w), "concatenated UnifiedDiffHunk::to_writer output differs from UnifiedDiff::to_writer");
        // one formatter object rendered, reconfigured, rendered again: every rendering must be that
        // of a fresh formatter with the settings in force at the time
        let mut has_header = s.header;
        for (r2, h2) in [(0usize, false), (s.radius + 1, false), (1, true), (s.radius, false)] {
            ud.context_radius(r2);
            if h2 {
                ud.header("a.txt", "b.txt");
            }
            let mut again: Vec<u8> = vec![];
            ud.to_writer(&mut again).unwrap();
            let shown2 = ud.to_string();
            let mut fresh = diff.unified_diff();
            fresh.context_radius(r2);
            has_header |= h2;
            if has_header {
                fresh.header("a.txt", "b.txt");
            }
            let mut fw: Vec<u8> = vec![];
            fresh.to_writer(&mut fw).unwrap();
            claim!(again == fw, "a formatter rendered at radius {} and then set to radius {} writes {:?}, a fresh formatter at radius {} writes {:?}", s.radius, r2, String::from_utf8_lossy(&again), r2, String::from_utf8_lossy(&fw));
            claim!(shown2 == String::from_utf8_lossy(&again), "Display and to_writer of a reconfigured formatter differ");
            if let Err(e) = check_udiff(&again, &old_lines, &new_lines, r2, has_header, inputs_equal) {
                engine::fail(format!("reconfigured formatter (radius {} after {}): {} | output {:?} | ops {:?}", r2, s.radius, e, String::from_utf8_lossy(&again), ops));
            }
        }
        engine::witness("paths_with_a_reconfigured_formatter");
        if nh >= 2 {
            engine::witness("paths_with_two_or_more_hunks");
        }
        if nh >= 1 {
            engine::witness("paths_with_a_hunk");
        }
        if inputs_equal {
            engine::witness("paths_with_equal_inputs");
        }
        if w.windows(MARKER.len()).any(|x| x == MARKER) {
            engine::witness("paths_with_missing_newline_marker");
        }
        engine::offer_sample(|| json!({"shape": self.shape_json(s), "path_condition": engine::path_condition(), "rendered": shown.clone()}));
        format!("{:?}", shown)
    }
}

fn sides(tier: Tier) -> Vec<Side> {
    let max = match tier {
        Tier::Quick => 4,
        Tier::Thorough => 5,
    };
    let mut v = vec![Side { lines: 0, term: Term::Lf, last_unterminated: false, wide: false }];
    for lines in 1..=max {
        for term in [Term::Lf, Term::CrLf, Term::Cr] {
            for last_unterminated in [false, true] {
                v.push(Side { lines, term, last_unterminated, wide: false });
            }
        }
    }
    v.push(Side { lines: 2, term: Term::Lf, last_unterminated: false, wide: true });
    for lines in 2..=max.min(4) {
        v.push(Side { lines, term: Term::Mixed, last_unterminated: false, wide: false });
    }
    v.push(Side { lines: 3, term: Term::Mixed, last_unterminated: true, wide: false });
    v
}

impl Prop for C05 {
    type Shape = Shape;
    fn id(&self) -> &'static str {
        "C05"
    }
    fn shapes(&self, tier: Tier) -> Vec<Shape> {
        let mut v = vec![];
        let radii: Vec<usize> = match tier {
            Tier::Quick => vec![0, 1, 2],
            Tier::Thorough => vec![0, 1, 2, 3],
        };
        for alg in ALGS {
            for old in sides(tier) {
                for new in sides(tier) {
                    // terminator kinds: same on both sides, or LF against CRLF / CR
                    if old.lines > 0 && new.lines > 0 && old.term != new.term && old.term != Term::Lf && new.term != Term::Mixed && old.term != Term::Mixed {
                        continue;
                    }
                    if tier == Tier::Thorough && old.lines + new.lines > 8 && alg == Algorithm::Patience {
                        continue;
                    }
                    for &radius in &radii {
                        for (header, bytes) in [(false, false), (true, false), (true, true)] {
                            if tier == Tier::Thorough && old.lines + new.lines > 8 && (bytes || radius == 3) {
                                continue;
                            }
                            v.push(Shape { alg, old, new, radius, header, bytes, big: None });
                        }
                    }
                }
            }
        }
        // more than 100 lines on at least one side
        let wins = |max: usize| -> Vec<Vec<u8>> {
            let mut all: Vec<Vec<u8>> = vec![vec![]];
            let mut cur: Vec<Vec<u8>> = vec![vec![]];
            for _ in 0..max {
                let mut nx = vec![];
                for w in &cur {
                    for k in 0..3u8 {
                        let mut u = w.clone();
                        u.push(k);
                        nx.push(u);
                    }
                }
                all.extend(nx.iter().cloned());
                cur = nx;
            }
            all
        };
        let none = Side { lines: 0, term: Term::Lf, last_unterminated: false, wide: false };
        let (wmax, places): (usize, Vec<(usize, usize)>) = match tier {
            Tier::Quick => (2, vec![(50, 51), (99, 0)]),
            Tier::Thorough => (3, vec![(50, 51), (99, 0), (0, 99), (3, 98), (97, 2)]),
        };
        for alg in ALGS {
            for &(pre, post) in &places {
                // the widest windows only in the middle of the text
                let wm = if (pre, post) == (50, 51) { wmax } else { 2 };
                for ow in wins(wm) {
                    for nw in wins(wm) {
                        if pre + post < 101 && ow.len().max(nw.len()) < 2 {
                            continue; // neither side would exceed 100 lines
                        }
                        if (pre == 0 && (ow.contains(&1) || nw.contains(&1))) || (post == 0 && (ow.contains(&2) || nw.contains(&2))) {
                            continue;
                        }
                        if alg == Algorithm::Lcs && ow.len() + nw.len() > 4 {
                            continue;
                        }
                        let radius = if (ow.len() + nw.len()) % 2 == 0 { 1 } else { 0 };
                        v.push(Shape { alg, old: none, new: none, radius, header: false, bytes: false, big: Some(Big { pre, post, old_w: ow.clone(), new_w: nw.clone() }) });
                    }
                }
            }
        }
        v
    }
    fn run(&self, s: &Shape) -> String {
        self.body(s, false)
    }
    fn attribute(&self, s: &Shape, ints: &[i64], bools: &[bool], _msg: &str) -> Option<String> {
        match engine::run_concrete(ints, bools, || self.body(s, true)) {
            engine::Leaf::Ok(_) => Some("src/algorithms/compact.rs:swap".into()),
            _ => None,
        }
    }
    fn cost(&self, s: &Shape) -> u64 {
        match &s.big {
            None => (s.old.lines + s.new.lines) as u64,
            Some(b) => 20 + (b.old_w.len() + b.new_w.len()) as u64 + if s.alg == Algorithm::Lcs { 20 } else { 0 },
        }
    }
    fn shape_json(&self, s: &Shape) -> Value {
        json!({"alg": alg_name(s.alg), "old": s.old.to_json(), "new": s.new.to_json(), "radius": s.radius, "header": s.header, "bytes": s.bytes,
            "big": s.big.as_ref().map(|b| json!({"pre": b.pre, "post": b.post, "old_window": b.old_w, "new_window": b.new_w}))})
    }
    fn shape_from(&self, v: &Value) -> Shape {
        Shape {
            alg: alg_from(v["alg"].as_str().unwrap()),
            old: Side::from_json(&v["old"]),
            new: Side::from_json(&v["new"]),
            radius: v["radius"].as_u64().unwrap() as usize,
            header: v["header"].as_bool().unwrap(),
            bytes: v["bytes"].as_bool().unwrap(),
            big: if v["big"].is_object() {
                let w = |k: &str| -> Vec<u8> { v["big"][k].as_array().unwrap().iter().map(|x| x.as_u64().unwrap() as u8).collect() };
                Some(Big { pre: v["big"]["pre"].as_u64().unwrap() as usize, post: v["big"]["post"].as_u64().unwrap() as usize, old_w: w("old_window"), new_w: w("new_window") })
            } else {
                None
            },
        }
    }
    fn describe(&self, s: &Shape, ints: &[i64], _b: &[bool]) -> Value {
        if let Some(b) = &s.big {
            let skel_vals = 2 * (b.pre + b.post);
            return json!({"shape": self.shape_json(s), "note": "pre + post pairwise different one-character LF-terminated lines with a window between them; window items: 0 = fresh line, 1 = copy of the line before the window, 2 = copy of the line after it", "values_of_the_fresh_window_lines (character, LF) in order of creation, old side first": ints.iter().skip(skel_vals).collect::<Vec<_>>()});
        }
        // instantiate the texts from the values (letters for ordinary characters)
        let render = |pat: &str, vals: &[i64]| -> String {
            let mut out = String::new();
            for (c, v) in pat.chars().zip(vals) {
                match c {
                    'x' => out.push_str(&format!("<{}>", v)),
                    c => out.push(c),
                }
            }
            out
        };
        let po = s.old.pattern();
        let pn = s.new.pattern();
        let no = po.chars().count();
        json!({"old_text": render(&po, &ints[..no.min(ints.len())]), "new_text": render(&pn, &ints[no.min(ints.len())..]), "note": "<v> = one ordinary character with value v; equal values = equal characters"})
    }
    fn meta(&self, tier: Tier) -> Meta {
        Meta {
            functions: vec![
                "similar::TextDiffConfig::diff_lines / TextDiff::{unified_diff, grouped_ops, newline_terminated}",
                "similar::udiff::{UnifiedDiff::{context_radius, header, iter_hunks, to_writer, Display}, UnifiedDiffHunk::{header, iter_changes, to_writer, Display}, UnifiedHunkHeader::{new, Display}, UnifiedDiffHunkRange::Display, MissingNewlineHint, unified_diff}",
                "similar::group_diff_ops",
                "similar::Change::{to_string_lossy, missing_newline, as_bytes via DiffableStr}",
            ],
            bounds: format!("line texts of 0..={} lines per side (1-character contents, one 2-character variant), terminators LF / CRLF / CR (same on both sides, or LF against CRLF / CR) and texts whose lines cycle through LF, CRLF, CR, last line terminated or not, x 3 algorithms x context radius {} x {{no header, header, header + byte mode with a 0xFF byte in every line}}; the diff stage is symbolic (all equality patterns of the lines); the rendering stage has no data-dependent branch and is evaluated on one model of each path, parsed and applied by an independent strict parser; after its first rendering the same formatter object is set to radius 0, radius+1, 1 (+ header) and back and must render exactly what a fresh formatter with those settings renders (parsed and applied again); the writer output is taken through a Vec<u8> and through writers that implement only write() and accept all / 1 / 3 bytes per call; plus texts of more than 100 lines (TextDiffConfig's interning branch): 99..101 pairwise-different LF-terminated lines with a window of up to {} lines per side at the middle / end{} of the text, each window line a fresh symbolic line or a copy of the line just before / after the window, radius 0 / 1", match tier { Tier::Quick => 4, Tier::Thorough => 5 }, match tier { Tier::Quick => "0..=2", Tier::Thorough => "0..=3" }, match tier { Tier::Quick => 2, Tier::Thorough => 3 }, match tier { Tier::Quick => "", Tier::Thorough => " / front / near either end" }),
            outside: "more lines; other mixes of terminators within one text than the LF/CRLF/CR cycle; missing_newline_hint(false); non-line diffs rendered as unified diffs; str/[u8] tokenization itself (C06)".into(),
            assumptions: vec![
                "rendering copies line bytes without looking at them (true of the code: write_all(as_bytes) / to_string_lossy), so one model per path is exhaustive for that path".into(),
                "H2 swap-repair switch is used only to attribute a failing case to the known finding at the compaction swap".into(),
            ],
            required_witnesses: vec!["paths_above_the_100_line_threshold", "paths_with_a_hunk", "paths_with_two_or_more_hunks", "paths_with_equal_inputs", "paths_with_missing_newline_marker", "paths_that_took_a_compaction_swap", "paths_with_a_reconfigured_formatter"],
            rule: "one state = one explored path (equality pattern of the lines) of one shape".into(),
        }
    }
}
