//! Text layer on symbolic text (SymTxt): C04, C13 (whole-diff iteration), C14 (text
//! diff == sequence diff of its tokens), C17 (remapper and one-call helpers).
use super::{Meta, Prop, Tier};
use crate::claim;
use crate::common::*;
use crate::engine::{self, F};
use crate::sym::Sym;
use crate::symtxt::{self, SymTxt};
use serde_json::{json, Value};
use similar::utils::TextDiffRemapper;
use similar::{capture_diff_slices, Algorithm, Change, ChangeTag, DiffOp, DiffTag, TextDiff};

#[derive(Clone, Copy, Debug, PartialEq, Eq)]
pub enum Tok {
    Lines,
    Words,
    Chars,
    UnicodeWords,
    Graphemes,
}
pub const TOKS: [Tok; 5] = [Tok::Lines, Tok::Words, Tok::Chars, Tok::UnicodeWords, Tok::Graphemes];
impl Tok {
    pub fn name(&self) -> &'static str {
        match self {
            Tok::Lines => "lines",
            Tok::Words => "words",
            Tok::Chars => "chars",
            Tok::UnicodeWords => "unicode_words",
            Tok::Graphemes => "graphemes",
        }
    }
    pub fn from(s: &str) -> Tok {
        *TOKS.iter().find(|t| t.name() == s).unwrap()
    }
}

#[derive(Clone, Copy, Debug, PartialEq, Eq)]
pub enum Which {
    C04,
    C13,
    C14,
    C17,
    /// grouping forwarders (TextDiff::grouped_ops, Capture::into_grouped_ops) and the
    /// statement of C12 on the concrete op lists the diffs produce
    C12s,
}

#[derive(Clone, Debug)]
pub struct Shape {
    pub old: String,
    pub new: String,
    pub tok: Tok,
    pub alg: Algorithm,
    /// Some(x): configure().newline_terminated(x)
    pub nl_override: Option<bool>,
}

pub struct Text(pub Which);

pub fn patterns(maxlen: usize) -> Vec<String> {
    let alpha = ['x', ' ', '\n', '\r', '.'];
    let mut all = vec![String::new()];
    let mut cur = vec![String::new()];
    for _ in 0..maxlen {
        let mut nx = vec![];
        for p in &cur {
            for a in alpha {
                let mut q = p.clone();
                q.push(a);
                nx.push(q);
            }
        }
        all.extend(nx.iter().cloned());
        cur = nx;
    }
    all
}
pub const EXTRA: &[&str] = &[
    "W", "xW", "Wx", "W W", "xW\nW", "xx xxx", "x\n\nxx\n", "xx.xxx", "x\nx\n", "x\nx", "x x", "xx\r\nx", "x.x", "x\rx\n", "\n\nx", "xx x", "x\n\nx\n", "xxx", "xxxx", "xx xx", "x\nx\nx\n", "x x x", "x\r\n\r\nx",
];

pub fn make_diff<'a>(s: &Shape, ot: &'a SymTxt, nt: &'a SymTxt) -> TextDiff<'a, 'a, 'a, SymTxt> {
    let mut cfg = TextDiff::configure();
    cfg.algorithm(s.alg);
    if let Some(x) = s.nl_override {
        cfg.newline_terminated(x);
    }
    match s.tok {
        Tok::Lines => cfg.diff_lines(ot, nt),
        Tok::Words => cfg.diff_words(ot, nt),
        Tok::Chars => cfg.diff_chars(ot, nt),
        Tok::UnicodeWords => cfg.diff_unicode_words(ot, nt),
        Tok::Graphemes => cfg.diff_graphemes(ot, nt),
    }
}

fn same_slice(a: &SymTxt, b: &SymTxt) -> bool {
    a.ptr_range() == b.ptr_range()
}

/// tokens partition the text: token i starts where token i-1 ended
pub fn check_partition(tokens: &[&SymTxt], text: &[Sym], what: &str) {
    let base = text.as_ptr() as usize;
    let mut off = 0usize;
    for (i, t) in tokens.iter().enumerate() {
        let (p, l) = t.ptr_range();
        claim!(l > 0, "{} token {} is empty", what, i);
        claim!(
            p == base + off * std::mem::size_of::<Sym>(),
            "{} token {} does not start where the previous one ended",
            what, i
        );
        off += l;
    }
    claim!(off == text.len(), "{} tokens cover {} of {} characters", what, off, text.len());
}

fn txt_eq(a: &SymTxt, b: &SymTxt) -> F {
    if a.chars().len() != b.chars().len() {
        return F::not(F::True);
    }
    F::And(a.chars().iter().zip(b.chars()).map(|(x, y)| F::eq(x.0, y.0)).collect())
}

/// C04's walk over a list of changes.
fn check_changes(changes: &[Change<&SymTxt>], olds: &[&SymTxt], news: &[&SymTxt], what: &str) {
    let (mut oi, mut ni) = (0usize, 0usize);
    for (k, c) in changes.iter().enumerate() {
        match c.tag() {
            ChangeTag::Equal => {
                claim!(
                    c.old_index() == Some(oi) && c.new_index() == Some(ni),
                    "{}: change #{} Equal carries indices {:?}/{:?}, expected {}/{}",
                    what, k, c.old_index(), c.new_index(), oi, ni
                );
                claim!(oi < olds.len() && ni < news.len(), "{}: change #{} past the end", what, k);
                claim!(same_slice(c.value(), olds[oi]), "{}: change #{} Equal does not carry old token {}", what, k, oi);
                engine::must_hold(&txt_eq(olds[oi], news[ni]), &format!("{}: change #{} Equal pairs different tokens old[{}] / new[{}]", what, k, oi, ni));
                oi += 1;
                ni += 1;
            }
            ChangeTag::Delete => {
                claim!(
                    c.old_index() == Some(oi) && c.new_index().is_none(),
                    "{}: change #{} Delete carries indices {:?}/{:?}, expected Some({})/None",
                    what, k, c.old_index(), c.new_index(), oi
                );
                claim!(oi < olds.len(), "{}: change #{} past the end", what, k);
                claim!(same_slice(c.value(), olds[oi]), "{}: change #{} Delete does not carry old token {}", what, k, oi);
                oi += 1;
            }
            ChangeTag::Insert => {
                claim!(
                    c.new_index() == Some(ni) && c.old_index().is_none(),
                    "{}: change #{} Insert carries indices {:?}/{:?}, expected None/Some({})",
                    what, k, c.old_index(), c.new_index(), ni
                );
                claim!(ni < news.len(), "{}: change #{} past the end", what, k);
                claim!(same_slice(c.value(), news[ni]), "{}: change #{} Insert does not carry new token {}", what, k, ni);
                ni += 1;
            }
        }
    }
    claim!(
        oi == olds.len() && ni == news.len(),
        "{}: the changes cover {}/{} old and {}/{} new tokens",
        what, oi, olds.len(), ni, news.len()
    );
}

fn changes_key(c: &[Change<&SymTxt>]) -> Vec<(ChangeTag, Option<usize>, Option<usize>, (usize, usize))> {
    c.iter().map(|x| (x.tag(), x.old_index(), x.new_index(), x.value().ptr_range())).collect()
}

/// The sequence an iterator yields must not depend on how it is driven: after `a` items taken
/// with next(), nth(b) is item a+b of the reference and the iteration continues behind it;
/// size_hint brackets, count() equals and last() is the end of what is left; step_by(2) / skip
/// see the same items.
fn check_driven<I: Iterator, K: PartialEq + std::fmt::Debug>(mk: &dyn Fn() -> I, key: &dyn Fn(I::Item) -> K, reference: &[K], what: &str) {
    let len = reference.len();
    for a in 0..=len.min(4) {
        for b in 0..=4usize {
            let mut it = mk();
            for k in 0..a {
                let g = it.next().map(key);
                claim!(g.as_ref() == reference.get(k), "{}: next() #{} gives {:?}, expected {:?}", what, k, g, reference.get(k));
            }
            let (lo, hi) = it.size_hint();
            claim!(lo <= len - a && hi.map_or(true, |h| len - a <= h), "{}: size_hint {:?} after {} of {} items", what, (lo, hi), a, len);
            let g = it.nth(b).map(key);
            claim!(g.as_ref() == reference.get(a + b), "{}: nth({}) after {} items gives {:?}, expected {:?}", what, b, a, g, reference.get(a + b));
            if a + b < len {
                let g = it.next().map(key);
                claim!(g.as_ref() == reference.get(a + b + 1), "{}: the item after nth({}) (after {} items) is {:?}, expected {:?}", what, b, a, g, reference.get(a + b + 1));
            }
        }
        let mut it = mk();
        for _ in 0..a {
            it.next();
        }
        let c = it.count();
        claim!(c == len - a, "{}: count() after {} items is {}, expected {}", what, a, c, len - a);
        let mut it = mk();
        for _ in 0..a {
            it.next();
        }
        let l = it.last().map(key);
        claim!(l.as_ref() == if a < len { reference.last() } else { None }, "{}: last() after {} items is {:?}", what, a, l);
    }
    let stepped: Vec<K> = mk().step_by(2).map(key).collect();
    let want: Vec<&K> = reference.iter().step_by(2).collect();
    claim!(stepped.iter().collect::<Vec<_>>() == want, "{}: step_by(2) gives {:?}, expected {:?}", what, stepped, want);
    let mut it = mk();
    let first = it.next().map(key);
    claim!(first.as_ref() == reference.first(), "{}: first item", what);
    let rest: Vec<K> = it.by_ref().skip(1).step_by(2).map(key).collect();
    let want: Vec<&K> = reference.iter().skip(2).step_by(2).collect();
    claim!(rest.iter().collect::<Vec<_>>() == want, "{}: next(); skip(1).step_by(2) gives {:?}, expected {:?}", what, rest, want);
}

/// C17's walk over remapped slices.
fn check_slices(slices: &[(ChangeTag, &SymTxt)], old: &[Sym], new: &[Sym], what: &str) {
    let (ob, nb) = (old.as_ptr() as usize, new.as_ptr() as usize);
    let sz = std::mem::size_of::<Sym>();
    let (mut po, mut pn) = (0usize, 0usize);
    for (k, (tag, sl)) in slices.iter().enumerate() {
        let (p, l) = sl.ptr_range();
        claim!(l > 0, "{}: slice #{} is empty", what, k);
        match tag {
            ChangeTag::Equal => {
                claim!(p == ob + po * sz, "{}: Equal slice #{} is not the old substring at {}", what, k, po);
                claim!(po + l <= old.len() && pn + l <= new.len(), "{}: Equal slice #{} runs past the texts", what, k);
                engine::must_hold(
                    &txt_eq(SymTxt::new(&old[po..po + l]), SymTxt::new(&new[pn..pn + l])),
                    &format!("{}: Equal slice #{} differs from the new text at {}", what, k, pn),
                );
                po += l;
                pn += l;
            }
            ChangeTag::Delete => {
                claim!(p == ob + po * sz, "{}: Delete slice #{} is not the old substring at {}", what, k, po);
                po += l;
            }
            ChangeTag::Insert => {
                claim!(p == nb + pn * sz, "{}: Insert slice #{} is not the new substring at {}", what, k, pn);
                pn += l;
            }
        }
    }
    claim!(po == old.len() && pn == new.len(), "{}: slices reconstruct {}/{} old and {}/{} new characters", what, po, old.len(), pn, new.len());
}

impl Text {
    fn body(&self, s: &Shape) -> String {
        reset_hooks();
        symtxt::reset();
        let old = symtxt::text_from_pattern(&s.old);
        let new = symtxt::text_from_pattern(&s.new);
        let (ot, nt) = (SymTxt::new(&old), SymTxt::new(&new));
        let diff = make_diff(s, ot, nt);
        let olds: Vec<&SymTxt> = diff.old_slices().to_vec();
        let news: Vec<&SymTxt> = diff.new_slices().to_vec();
        let ops: Vec<DiffOp> = diff.ops().to_vec();
        if ops.iter().any(|o| o.tag() != DiffTag::Equal) {
            engine::witness("paths_with_changes");
        }
        if ops.iter().any(|o| o.tag() == DiffTag::Equal) {
            engine::witness("paths_with_equal_ops");
        }
        if olds.len() >= 2 && news.len() >= 2 {
            engine::witness("paths_with_two_or_more_tokens_per_side");
        }
        match self.0 {
            Which::C04 => {
                check_partition(&olds, &old, "old");
                check_partition(&news, &new, "new");
                let all: Vec<Change<&SymTxt>> = diff.iter_all_changes().collect();
                check_changes(&all, &olds, &news, "iter_all_changes");
                let per_op: Vec<Change<&SymTxt>> = ops.iter().flat_map(|op| diff.iter_changes(op)).collect();
                check_changes(&per_op, &olds, &news, "ops().flat_map(iter_changes)");
                // aliasing inputs: the old text against its own prefixes / suffix (slices of one
                // buffer, starting at the same address or ending at the same address)
                for cut in 1..=old.len().min(2) {
                    for (a, b, what) in [
                        (&old[..], &old[..old.len() - cut], "old text against its own prefix (same buffer)"),
                        (&old[..old.len() - cut], &old[..], "a prefix of the old text against the whole (same buffer)"),
                        (&old[..], &old[cut..], "old text against its own suffix (same buffer)"),
                    ] {
                        let (at, bt) = (SymTxt::new(a), SymTxt::new(b));
                        let d2 = make_diff(s, at, bt);
                        let (o2, n2) = (d2.old_slices().to_vec(), d2.new_slices().to_vec());
                        check_partition(&o2, a, what);
                        check_partition(&n2, b, what);
                        let all2: Vec<Change<&SymTxt>> = d2.iter_all_changes().collect();
                        check_changes(&all2, &o2, &n2, what);
                        engine::witness("paths_with_aliasing_inputs");
                    }
                }
                // the same aliasing inputs on the real str type: the path's model instantiated as
                // a String, diffed against its own prefixes (slices of one buffer); checked by
                // plain reconstruction
                engine::pin_model();
                let os = String::from_utf8(symtxt::render(&old)).unwrap();
                let cuts: Vec<usize> = os.char_indices().map(|x| x.0).rev().take(2).collect();
                for &c in &cuts {
                    for (a, b) in [(&os[..], &os[..c]), (&os[..c], &os[..])] {
                        let mut cfg = TextDiff::configure();
                        cfg.algorithm(s.alg);
                        let d3 = match s.tok {
                            Tok::Lines => cfg.diff_lines(a, b),
                            Tok::Words => cfg.diff_words(a, b),
                            Tok::Chars => cfg.diff_chars(a, b),
                            Tok::UnicodeWords => cfg.diff_unicode_words(a, b),
                            Tok::Graphemes => cfg.diff_graphemes(a, b),
                        };
                        let (mut ra, mut rb) = (String::new(), String::new());
                        for ch in d3.iter_all_changes() {
                            if ch.tag() != ChangeTag::Insert {
                                ra.push_str(ch.value());
                            }
                            if ch.tag() != ChangeTag::Delete {
                                rb.push_str(ch.value());
                            }
                        }
                        claim!(ra == a && rb == b, "real str {:?} against {:?} (slices of one buffer): the changes reconstruct {:?} / {:?}", a, b, ra, rb);
                    }
                }
            }
            Which::C13 => {
                let all = changes_key(&diff.iter_all_changes().collect::<Vec<_>>());
                let per_op = changes_key(&ops.iter().flat_map(|op| diff.iter_changes(op)).collect::<Vec<_>>());
                let direct = changes_key(&ops.iter().flat_map(|op| op.iter_changes(&olds[..], &news[..])).collect::<Vec<_>>());
                claim!(all == per_op, "iter_all_changes differs from the concatenation of TextDiff::iter_changes per op");
                check_driven(&|| diff.iter_all_changes(), &|c: Change<&SymTxt>| (c.tag(), c.old_index(), c.new_index(), c.value().ptr_range()), &all, "iter_all_changes driven by next/nth/step_by");
                claim!(all == direct, "iter_all_changes differs from the concatenation of DiffOp::iter_changes per op");
                // per-op expansion against the statement
                for op in &ops {
                    let ch: Vec<Change<&SymTxt>> = diff.iter_changes(op).collect();
                    let (tag, o, n) = op.as_tag_tuple();
                    let expect: Vec<(ChangeTag, Option<usize>, Option<usize>, (usize, usize))> = match tag {
                        DiffTag::Equal => o.clone().zip(n.clone()).map(|(i, j)| (ChangeTag::Equal, Some(i), Some(j), olds[i].ptr_range())).collect(),
                        DiffTag::Delete => o.clone().map(|i| (ChangeTag::Delete, Some(i), None, olds[i].ptr_range())).collect(),
                        DiffTag::Insert => n.clone().map(|j| (ChangeTag::Insert, None, Some(j), news[j].ptr_range())).collect(),
                        DiffTag::Replace => o.clone().map(|i| (ChangeTag::Delete, Some(i), None, olds[i].ptr_range()))
                            .chain(n.clone().map(|j| (ChangeTag::Insert, None, Some(j), news[j].ptr_range()))).collect(),
                    };
                    claim!(changes_key(&ch) == expect, "expansion of {:?} is not the stated sequence of changes", op);
                    let ck = |c: Change<&SymTxt>| (c.tag(), c.old_index(), c.new_index(), c.value().ptr_range());
                    check_driven(&|| diff.iter_changes(op), &ck, &expect, "TextDiff::iter_changes(op) driven by next/nth/step_by");
                    check_driven(&|| op.iter_changes(&olds[..], &news[..]), &ck, &expect, "DiffOp::iter_changes driven by next/nth/step_by");
                    // slice-wise expansion: same items as one slice (two for Replace)
                    let sl: Vec<(ChangeTag, &[&SymTxt])> = op.iter_slices(&olds[..], &news[..]).collect();
                    let flat: Vec<(ChangeTag, (usize, usize))> = sl.iter().flat_map(|(t, xs)| xs.iter().map(move |x| (*t, x.ptr_range()))).collect();
                    let from_changes: Vec<(ChangeTag, (usize, usize))> = expect.iter().map(|e| (e.0, e.3)).collect();
                    claim!(flat == from_changes, "iter_slices of {:?} does not yield the same items as iter_changes", op);
                    claim!(sl.len() == if tag == DiffTag::Replace { 2 } else { 1 }, "iter_slices of {:?} yields {} slices", op, sl.len());
                    let sk = |x: (ChangeTag, &[&SymTxt])| (x.0, x.1.as_ptr() as usize, x.1.len());
                    let sref: Vec<(ChangeTag, usize, usize)> = sl.iter().map(|x| sk(*x)).collect();
                    check_driven(&|| op.iter_slices(&olds[..], &news[..]), &sk, &sref, "DiffOp::iter_slices driven by next/nth/step_by");
                }
                // hunks with a radius that keeps everything: their changes concatenate to all changes
                let ud = {
                    let mut u = diff.unified_diff();
                    u.context_radius(1000);
                    u
                };
                let hunks: Vec<_> = ud.iter_hunks().collect();
                let from_hunks: Vec<_> = hunks.iter().flat_map(|h| changes_key(&h.iter_changes().collect::<Vec<_>>())).collect();
                if ops.iter().any(|o| o.tag() != DiffTag::Equal) {
                    claim!(from_hunks == all, "UnifiedDiffHunk::iter_changes over all hunks (radius 1000) differs from iter_all_changes");
                    for h in &hunks {
                        let href = changes_key(&h.iter_changes().collect::<Vec<_>>());
                        check_driven(&|| h.iter_changes(), &|c: Change<&SymTxt>| (c.tag(), c.old_index(), c.new_index(), c.value().ptr_range()), &href, "UnifiedDiffHunk::iter_changes driven by next/nth/step_by");
                    }
                } else {
                    claim!(from_hunks.is_empty(), "hunks without changes");
                }
                // a hunk built by hand from a sub-selection of the ops (non-consecutive ops):
                // its iteration is still the concatenation of the per-op expansions
                let picked: Vec<DiffOp> = ops.iter().copied().filter(|o| o.tag() != DiffTag::Equal).collect();
                if !picked.is_empty() {
                    let hunk = similar::udiff::UnifiedDiffHunk::new(picked.clone(), &diff, true);
                    let got = changes_key(&hunk.iter_changes().collect::<Vec<_>>());
                    let want: Vec<_> = picked.iter().flat_map(|op| changes_key(&diff.iter_changes(op).collect::<Vec<_>>())).collect();
                    claim!(got == want, "UnifiedDiffHunk::iter_changes over a sub-selection of ops {:?} is not the concatenation of their expansions", picked);
                    let mut rev = picked.clone();
                    rev.reverse();
                    let hunk = similar::udiff::UnifiedDiffHunk::new(rev.clone(), &diff, true);
                    let got = changes_key(&hunk.iter_changes().collect::<Vec<_>>());
                    let want: Vec<_> = rev.iter().flat_map(|op| changes_key(&diff.iter_changes(op).collect::<Vec<_>>())).collect();
                    claim!(got == want, "UnifiedDiffHunk::iter_changes over reversed ops {:?} is not the concatenation of their expansions", rev);
                }
                // re-applying an op to a capturing hook reproduces the op
                for op in &ops {
                    let mut c = similar::algorithms::Capture::new();
                    op.apply_to_hook(&mut c).unwrap();
                    claim!(c.ops() == [*op], "apply_to_hook({:?}) captured {:?}", op, c.ops());
                }
            }
            Which::C14 => {
                let direct = capture_diff_slices(s.alg, &olds, &news);
                claim!(ops == direct, "text diff ops {:?} differ from capture_diff_slices over the same tokens {:?}", ops, direct);
                claim!(diff.algorithm() == s.alg, "diff.algorithm() reports {:?}, configured {:?}", diff.algorithm(), s.alg);
                {
                    // a deadline that has already passed (virtual clock: always expired)
                    similar::verif_clock::install(Some(Box::new(|_| true)));
                    let mut cfg = TextDiff::configure();
                    cfg.algorithm(s.alg);
                    cfg.deadline(any_instant().unwrap());
                    let d2 = match s.tok {
                        Tok::Lines => cfg.diff_lines(ot, nt),
                        Tok::Words => cfg.diff_words(ot, nt),
                        Tok::Chars => cfg.diff_chars(ot, nt),
                        Tok::UnicodeWords => cfg.diff_unicode_words(ot, nt),
                        Tok::Graphemes => cfg.diff_graphemes(ot, nt),
                    };
                    let direct2 = similar::capture_diff_slices_deadline(s.alg, &olds, &news, any_instant());
                    similar::verif_clock::install(None);
                    claim!(d2.ops() == &direct2[..], "with a deadline that has already passed the text diff ops {:?} differ from capture_diff_slices_deadline over the same tokens {:?}", d2.ops(), direct2);
                }
                let expect_nl = s.nl_override.unwrap_or(s.tok == Tok::Lines);
                claim!(diff.newline_terminated() == expect_nl, "newline_terminated() is {} for {} with override {:?}", diff.newline_terminated(), s.tok.name(), s.nl_override);
                // from_* constructors are configure() with defaults
                if s.alg == Algorithm::Myers && s.nl_override.is_none() {
                    let d2 = match s.tok {
                        Tok::Lines => TextDiff::from_lines(ot, nt),
                        Tok::Words => TextDiff::from_words(ot, nt),
                        Tok::Chars => TextDiff::from_chars(ot, nt),
                        Tok::UnicodeWords => TextDiff::from_unicode_words(ot, nt),
                        Tok::Graphemes => TextDiff::from_graphemes(ot, nt),
                    };
                    claim!(d2.ops() == &ops[..] && d2.algorithm() == Algorithm::Myers && d2.newline_terminated() == (s.tok == Tok::Lines), "from_{} differs from configure().diff_{}", s.tok.name(), s.tok.name());
                    let d3 = TextDiff::from_slices(&olds, &news);
                    claim!(d3.ops() == &ops[..] && !d3.newline_terminated(), "from_slices over the tokens differs");
                }
            }
            Which::C12s => {
                for n in 0..=3usize {
                    let direct = similar::group_diff_ops(ops.clone(), n);
                    claim!(diff.grouped_ops(n) == direct, "TextDiff::grouped_ops({}) differs from group_diff_ops(ops, {})", n, n);
                    let mut cap = similar::algorithms::Capture::new();
                    for op in &ops {
                        op.apply_to_hook(&mut cap).unwrap();
                    }
                    claim!(cap.into_grouped_ops(n) == direct, "Capture::into_grouped_ops({}) differs from group_diff_ops", n);
                    // the statement, evaluated on this concrete op list (zero-length Equal ops are
                    // not part of the claim and dropped on both sides)
                    let expect = expected_groups(&ops, n);
                    let got: Vec<Vec<DiffOp>> = direct.iter().map(|g| g.iter().copied().filter(|o| !matches!(o, DiffOp::Equal { len: 0, .. })).collect()).collect();
                    claim!(got == expect, "group_diff_ops({:?}, {}) = {:?}, the statement requires {:?}", ops, n, direct, expect);
                    if direct.len() >= 2 {
                        engine::witness("paths_with_two_or_more_groups");
                    }
                }
            }
            Which::C17 => {
                let remap = TextDiffRemapper::from_text_diff(&diff, ot, nt);
                let remap2 = TextDiffRemapper::new(&olds, &news, ot, nt);
                let mut all: Vec<(ChangeTag, &SymTxt)> = vec![];
                for op in &ops {
                    let r: Vec<(ChangeTag, &SymTxt)> = remap.iter_slices(op).collect();
                    let r2: Vec<(ChangeTag, &SymTxt)> = remap2.iter_slices(op).collect();
                    let plain: Vec<(ChangeTag, &[&SymTxt])> = op.iter_slices(&olds[..], &news[..]).collect();
                    claim!(r.len() == plain.len() && r.iter().zip(&plain).all(|(a, b)| a.0 == b.0), "remapped tags differ from slice-wise expansion for {:?}", op);
                    claim!(r.len() == r2.len() && r.iter().zip(&r2).all(|(a, b)| a.0 == b.0 && same_slice(a.1, b.1)), "TextDiffRemapper::new and ::from_text_diff disagree on {:?}", op);
                    for ((_, sl), (_, toks)) in r.iter().zip(&plain) {
                        // the substring covering exactly the op's tokens
                        claim!(!toks.is_empty(), "op {:?} expands to an empty token slice", op);
                        let (p0, _) = toks[0].ptr_range();
                        let total: usize = toks.iter().map(|t| t.ptr_range().1).sum();
                        claim!(sl.ptr_range() == (p0, total), "remapped slice of {:?} is not the substring covering its tokens", op);
                    }
                    let (_, o, n) = op.as_tag_tuple();
                    if !o.is_empty() {
                        claim!(remap.slice_old(o.clone()).map(|x| x.ptr_range()) == Some((olds[o.start].ptr_range().0, olds[o.clone()].iter().map(|t| t.ptr_range().1).sum())), "slice_old({:?}) wrong", o);
                    }
                    if !n.is_empty() {
                        claim!(remap.slice_new(n.clone()).map(|x| x.ptr_range()) == Some((news[n.start].ptr_range().0, news[n.clone()].iter().map(|t| t.ptr_range().1).sum())), "slice_new({:?}) wrong", n);
                    }
                    all.extend(r);
                }
                check_slices(&all, &old, &new, "remapper.iter_slices over all ops");
                // the one-call helper of this tokenizer
                let helper: Vec<(ChangeTag, &SymTxt)> = match s.tok {
                    Tok::Lines => similar::utils::diff_lines(s.alg, ot, nt),
                    Tok::Words => similar::utils::diff_words(s.alg, ot, nt),
                    Tok::Chars => similar::utils::diff_chars(s.alg, ot, nt),
                    Tok::UnicodeWords => similar::utils::diff_unicode_words(s.alg, ot, nt),
                    Tok::Graphemes => similar::utils::diff_graphemes(s.alg, ot, nt),
                };
                check_slices(&helper, &old, &new, &format!("utils::diff_{}", s.tok.name()));
                if s.tok == Tok::Chars {
                    // utils::diff_slices over the characters themselves
                    let ds: Vec<(ChangeTag, &[Sym])> = similar::utils::diff_slices(s.alg, &old[..], &new[..]);
                    let conv: Vec<(ChangeTag, &SymTxt)> = ds.iter().map(|(t, x)| (*t, SymTxt::new(x))).collect();
                    check_slices(&conv, &old, &new, "utils::diff_slices");
                }
            }
        }
        engine::offer_sample(|| json!({"shape": self.shape_json(s), "path_condition": engine::path_condition(), "old_tokens": olds.len(), "new_tokens": news.len(), "ops": ops_json(&ops)}));
        format!("{:?}", ops)
    }
}

/// The statement of C12 on a concrete alternating op list.
fn expected_groups(ops: &[DiffOp], n: usize) -> Vec<Vec<DiffOp>> {
    let k = ops.len();
    if !ops.iter().any(|o| o.tag() != DiffTag::Equal) {
        return vec![];
    }
    let mut groups = vec![];
    let mut cur: Vec<DiffOp> = vec![];
    for (i, op) in ops.iter().enumerate() {
        match *op {
            DiffOp::Equal { old_index, new_index, len } => {
                if i == 0 {
                    let c = len.min(n);
                    if c > 0 {
                        cur.push(DiffOp::Equal { old_index: old_index + len - c, new_index: new_index + len - c, len: c });
                    }
                } else if i == k - 1 {
                    let c = len.min(n);
                    if c > 0 {
                        cur.push(DiffOp::Equal { old_index, new_index, len: c });
                    }
                } else if len > 2 * n {
                    if n > 0 {
                        cur.push(DiffOp::Equal { old_index, new_index, len: n });
                    }
                    groups.push(std::mem::take(&mut cur));
                    if n > 0 {
                        cur.push(DiffOp::Equal { old_index: old_index + len - n, new_index: new_index + len - n, len: n });
                    }
                } else {
                    cur.push(*op);
                }
            }
            o => cur.push(o),
        }
    }
    groups.push(cur);
    groups
}

impl Prop for Text {
    type Shape = Shape;
    fn id(&self) -> &'static str {
        match self.0 {
            Which::C04 => "C04",
            Which::C13 => "C13",
            Which::C14 => "C14",
            Which::C17 => "C17",
            Which::C12s => "C12s",
        }
    }
    fn shapes(&self, tier: Tier) -> Vec<Shape> {
        let mut pats = patterns(match tier {
            Tier::Quick => 2,
            Tier::Thorough => 3,
        });
        for e in EXTRA {
            if !pats.iter().any(|p| p == e) {
                pats.push(e.to_string());
            }
        }
        if tier == Tier::Thorough {
            // all patterns of length 4 over {ordinary char, LF, space}
            let mut cur = vec![String::new()];
            for _ in 0..4 {
                let mut nx = vec![];
                for p in &cur {
                    for a in ['x', '\n', ' '] {
                        let mut q = p.clone();
                        q.push(a);
                        nx.push(q);
                    }
                }
                cur = nx;
            }
            for q in cur {
                if !pats.iter().any(|p| *p == q) {
                    pats.push(q);
                }
            }
        }
        let mut v = vec![];
        let ords = |p: &str| p.chars().filter(|c| *c == 'x' || *c == 'W').count();
        for o in &pats {
            for n in &pats {
                // at most 7 symbolic characters in both texts together
                if ords(o) + ords(n) > 7 {
                    continue;
                }
                for tok in TOKS {
                    for alg in ALGS {
                        // the long extras only against each other and the short ones in the quick tier
                        if tier == Tier::Thorough && o.len() + n.len() > 7 && alg != Algorithm::Myers && tok != Tok::Lines && tok != Tok::Chars {
                            continue;
                        }
                        // the length-4 patterns: lines / words / chars only, and only against patterns of length <= 4
                        if tier == Tier::Thorough && (o.len() == 4 || n.len() == 4) && !EXTRA.contains(&o.as_str()) && !EXTRA.contains(&n.as_str())
                            && (matches!(tok, Tok::UnicodeWords | Tok::Graphemes) || o.len() > 4 || n.len() > 4 || (alg == Algorithm::Patience && o.len() + n.len() == 8))
                        {
                            continue;
                        }
                        let overrides: Vec<Option<bool>> = if self.0 == Which::C14 && alg == Algorithm::Myers && o.len() + n.len() <= 4 {
                            vec![None, Some(true), Some(false)]
                        } else {
                            vec![None]
                        };
                        for nl_override in overrides {
                            v.push(Shape { old: o.clone(), new: n.clone(), tok, alg, nl_override });
                        }
                    }
                }
            }
        }
        v
    }
    fn run(&self, s: &Shape) -> String {
        self.body(s)
    }
    fn cost(&self, s: &Shape) -> u64 {
        (s.old.len() + s.new.len()) as u64
    }
    fn shape_json(&self, s: &Shape) -> Value {
        json!({"old": s.old, "new": s.new, "tok": s.tok.name(), "alg": alg_name(s.alg), "nl_override": s.nl_override})
    }
    fn shape_from(&self, v: &Value) -> Shape {
        Shape {
            old: v["old"].as_str().unwrap().to_string(),
            new: v["new"].as_str().unwrap().to_string(),
            tok: Tok::from(v["tok"].as_str().unwrap()),
            alg: alg_from(v["alg"].as_str().unwrap()),
            nl_override: v["nl_override"].as_bool(),
        }
    }
    fn describe(&self, s: &Shape, ints: &[i64], _b: &[bool]) -> Value {
        json!({"old_pattern": s.old, "new_pattern": s.new, "character_values (old then new; x = ordinary char with this value, -1 LF, -2 CR, -3 space, -10..-19 punctuation)": ints})
    }
    fn meta(&self, tier: Tier) -> Meta {
        let functions = match self.0 {
            Which::C04 => vec![
                "similar::TextDiffConfig::{diff_lines, diff_words, diff_chars, diff_unicode_words, diff_graphemes, diff} on SymTxt",
                "similar::TextDiff::{iter_all_changes, iter_changes, ops, old_slices, new_slices}",
                "similar::iter::{AllChangesIter, ChangesIter}::{next, and whatever of nth / size_hint / count / last / step_by they override}",
                "capture_diff_deadline -> Compact/Replace/Capture + algorithms",
            ],
            Which::C13 => vec![
                "similar::iter::{AllChangesIter, ChangesIter}::{next, and whatever of nth / size_hint / count / last / step_by they override}",
                "similar::DiffOp::{iter_changes, iter_slices, apply_to_hook, as_tag_tuple}",
                "similar::TextDiff::{iter_changes, iter_all_changes}",
                "similar::udiff::{UnifiedDiff::iter_hunks, UnifiedDiffHunk::iter_changes}",
            ],
            Which::C14 => vec![
                "similar::TextDiffConfig::{algorithm, newline_terminated, diff_*, diff}",
                "similar::TextDiff::{from_lines, from_words, from_chars, from_unicode_words, from_graphemes, from_slices, algorithm, newline_terminated, ops}",
                "similar::capture_diff_slices",
            ],
            Which::C12s => vec![
                "similar::TextDiff::grouped_ops, similar::algorithms::Capture::into_grouped_ops, similar::group_diff_ops (on the concrete op lists of symbolic line/word/char diffs, radius 0..=3)",
            ],
            Which::C17 => vec![
                "similar::utils::TextDiffRemapper::{new, from_text_diff, slice_old, slice_new, iter_slices}, SliceRemapper::{new, slice}",
                "similar::utils::{diff_chars, diff_words, diff_unicode_words, diff_graphemes, diff_lines, diff_slices}",
                "similar::DiffOp::iter_slices",
            ],
        };
        Meta {
            functions,
            bounds: format!("texts = every pattern of length <= {} over {{ordinary char, space, LF, CR, punctuation}} (thorough: also every pattern of length 4 over {{ordinary char, LF, space}} for the line / word / char tokenizers) plus {} longer patterns (up to 8 characters / 5 tokens, some with two-unit characters), all ordered pairs, x 5 tokenizers x 3 algorithms; ordinary characters are symbolic (unbounded alphabet), classes are concrete; the element type is SymTxt, so the generic text layer runs symbolically{}", match tier { Tier::Quick => 2, Tier::Thorough => 3 }, EXTRA.len(), if self.0 == Which::C13 { "; every iterator (iter_all_changes, TextDiff::iter_changes, DiffOp::iter_changes, DiffOp::iter_slices, UnifiedDiffHunk::iter_changes) is also driven by next() x a then nth(b) (a, b in 0..=4), count(), last(), size_hint(), step_by(2) and skip(1) and must show the same items" } else if self.0 == Which::C04 { "; every old text is also diffed against its own prefixes and suffix taken from the same buffer (aliasing inputs, cut 1 and 2 characters), symbolically on SymTxt and, instantiated with the path's model, on real str slices of one String" } else { "" }),
            outside: "the tokenizers of str and [u8] themselves (decided by Kani in C06; unicode words / graphemes of the real types are not decided); longer texts; the >100-token path of TextDiffConfig::diff is covered separately (C14 skeleton family)".into(),
            assumptions: vec![
                "SymTxt's own tokenizers partition the text (checked on every path) and follow the documented shapes; they stand in for the str/[u8] tokenizers, which the generic layer only calls through the DiffableStr trait".into(),
                "values are compared by pointer identity (same sub-slice of the caller's text), which is stronger than byte equality".into(),
            ],
            required_witnesses: if self.0 == Which::C04 { vec!["paths_with_changes", "paths_with_equal_ops", "paths_with_two_or_more_tokens_per_side", "paths_with_aliasing_inputs"] } else { vec!["paths_with_changes", "paths_with_equal_ops", "paths_with_two_or_more_tokens_per_side"] },
            rule: "one state = one explored path (equality pattern of the ordinary characters) of one shape".into(),
        }
    }
}

// ---------------------------------------------------------------- C14 above the size threshold

/// One extra token spliced into the skeleton.
#[derive(Clone, Copy, Debug, PartialEq, Eq)]
pub struct Extra {
    /// 0 = front, 1 = middle, 2 = end
    pub pos: u8,
    /// 0 = fresh symbolic token (different from every skeleton token, may equal other
    /// fresh tokens); 1/2/3 = a copy of the first / middle / last skeleton token
    pub kind: u8,
}

#[derive(Clone, Debug)]
pub struct BigShape {
    pub alg: Algorithm,
    pub tok: Tok,
    pub skel: usize,
    pub old_extra: Vec<Extra>,
    pub new_extra: Vec<Extra>,
}
/// `TextBig(0)`: C14's above-threshold family (sub-check "C14b"); `TextBig(1)`: the same family
/// with C04's reconstruction walk over the changes (sub-check "C04b"); `TextBig(2)`: with C17's
/// remapper / one-call helpers incl. utils::diff_slices over more than 100 items ("C17b").
pub struct TextBig(pub u8);

fn all_extras() -> Vec<Extra> {
    let mut v = vec![];
    for pos in 0..3 {
        for kind in 0..4 {
            v.push(Extra { pos, kind });
        }
    }
    v
}

impl TextBig {
    /// builds one side: returns the characters of the text
    fn side(skel: &[Vec<Sym>], extras: &[Extra], tok: Tok, shared: &[Sym]) -> Vec<Sym> {
        let mk = |e: &Extra| -> Vec<Sym> {
            match e.kind {
                // the shared fresh token P (the same token on both sides and at every use)
                4 => shared.to_vec(),
                0 => {
                    let c = symtxt::fresh_char(symtxt::Class::Ord);
                    if tok == Tok::Lines {
                        vec![c, symtxt::fresh_char(symtxt::Class::Lf)]
                    } else {
                        vec![c]
                    }
                }
                1 => skel[0].clone(),
                2 => skel[skel.len() / 2].clone(),
                _ => skel[skel.len() - 1].clone(),
            }
        };
        let mut front = vec![];
        let mut mid = vec![];
        let mut end = vec![];
        for e in extras {
            match e.pos {
                0 => front.extend(mk(e)),
                1 => mid.extend(mk(e)),
                _ => end.extend(mk(e)),
            }
        }
        let h = skel.len() / 2;
        let mut out = front;
        for t in &skel[..h] {
            out.extend(t.iter().copied());
        }
        out.extend(mid);
        for t in &skel[h..] {
            out.extend(t.iter().copied());
        }
        out.extend(end);
        out
    }
}

impl TextBig {
    /// 130 tokens a side, the first `shared` in common, everything else different: more than 255
    /// different tokens in total (integer ids must not run out / wrap).
    fn run_disjoint(&self, s: &BigShape) -> String {
        let shared = s.skel - 1000;
        let n = 130;
        let head: Vec<Sym> = (0..shared).map(|_| symtxt::fresh_char(symtxt::Class::Ord)).collect();
        let o_tail: Vec<Sym> = (0..n - shared).map(|_| symtxt::fresh_char(symtxt::Class::Ord)).collect();
        let n_tail: Vec<Sym> = (0..n - shared).map(|_| symtxt::fresh_char(symtxt::Class::Ord)).collect();
        let ids: Vec<u32> = head.iter().chain(o_tail.iter()).chain(n_tail.iter()).map(|x| x.0).collect();
        engine::assume(&F::Distinct(ids.clone()));
        for id in ids {
            engine::set_hash_class(id, id as u64);
        }
        let old: Vec<Sym> = head.iter().chain(o_tail.iter()).copied().collect();
        let new: Vec<Sym> = head.iter().chain(n_tail.iter()).copied().collect();
        let (ot, nt) = (SymTxt::new(&old), SymTxt::new(&new));
        let shape = Shape { old: String::new(), new: String::new(), tok: Tok::Chars, alg: s.alg, nl_override: None };
        let diff = make_diff(&shape, ot, nt);
        let olds = diff.old_slices().to_vec();
        let news = diff.new_slices().to_vec();
        let ops = diff.ops().to_vec();
        engine::witness("paths_above_the_threshold");
        engine::witness("paths_with_more_than_255_different_tokens");
        engine::witness("paths_with_changes");
        match self.0 {
            1 => {
                let all: Vec<Change<&SymTxt>> = diff.iter_all_changes().collect();
                check_changes(&all, &olds, &news, "iter_all_changes (260 different tokens)");
            }
            2 => {
                let helper: Vec<(ChangeTag, &SymTxt)> = similar::utils::diff_chars(s.alg, ot, nt);
                check_slices(&helper, &old, &new, "utils::diff_chars (260 different tokens)");
                let ds: Vec<(ChangeTag, &[Sym])> = similar::utils::diff_slices(s.alg, &old[..], &new[..]);
                let conv: Vec<(ChangeTag, &SymTxt)> = ds.iter().map(|(t, x)| (*t, SymTxt::new(x))).collect();
                check_slices(&conv, &old, &new, "utils::diff_slices (260 different items)");
            }
            _ => {
                let direct = capture_diff_slices(s.alg, &olds, &news);
                claim!(ops == direct, "with 130 / 130 mostly different tokens the text diff ops differ from capture_diff_slices over the same tokens: {:?} vs {:?}", ops, direct);
            }
        }
        format!("{:?}", ops)
    }
}

impl TextBig {
    /// 65 900 different two-unit characters (260 x 260 pairs over two pools of pairwise different
    /// units) in one text diff: old = S X S[..400], new = S Y with |S| = 60 000, |X| = 2 900,
    /// |Y| = 3 000; each side has fewer than 65 536 tokens, together more than 65 536 different
    /// ones, and the old text ends in a second copy of its first 400 tokens (an id that wraps
    /// around collides with one of them).
    fn run_huge(&self, s: &BigShape) -> String {
        let leads: Vec<Sym> = (0..260).map(|_| symtxt::fresh_char(symtxt::Class::Lead)).collect();
        let conts: Vec<Sym> = (0..260).map(|_| symtxt::fresh_char(symtxt::Class::Cont)).collect();
        engine::assume(&F::Distinct(leads.iter().map(|x| x.0).collect()));
        engine::assume(&F::Distinct(conts.iter().map(|x| x.0).collect()));
        for x in leads.iter().chain(conts.iter()) {
            engine::set_hash_class(x.0, x.0 as u64);
        }
        let push = |v: &mut Vec<Sym>, t: usize| {
            v.push(leads[t / 260]);
            v.push(conts[t % 260]);
        };
        let (mut old, mut new): (Vec<Sym>, Vec<Sym>) = (vec![], vec![]);
        for t in 0..62_900 {
            push(&mut old, t);
        }
        for t in 0..400 {
            push(&mut old, t);
        }
        for t in (0..60_000).chain(62_900..65_900) {
            push(&mut new, t);
        }
        let (ot, nt) = (SymTxt::new(&old), SymTxt::new(&new));
        let shape = Shape { old: String::new(), new: String::new(), tok: Tok::Chars, alg: s.alg, nl_override: None };
        let diff = make_diff(&shape, ot, nt);
        let olds = diff.old_slices().to_vec();
        let news = diff.new_slices().to_vec();
        let ops = diff.ops().to_vec();
        claim!(olds.len() == 63_300 && news.len() == 63_000, "tokenize_chars gives {} / {} tokens", olds.len(), news.len());
        engine::witness("paths_above_the_threshold");
        engine::witness("paths_with_more_than_255_different_tokens");
        engine::witness("paths_with_more_than_65536_different_tokens");
        engine::witness("paths_with_changes");
        let same = |a: &SymTxt, b: &SymTxt| a.chars().len() == b.chars().len() && a.chars().iter().zip(b.chars()).all(|(x, y)| x.0 == y.0);
        // the ops are a valid edit script whose Equal ops pair equal tokens
        let (mut oi, mut ni) = (0usize, 0usize);
        for op in &ops {
            let (tag, or, nr) = op.as_tag_tuple();
            claim!(or.start == oi && nr.start == ni && or.end <= olds.len() && nr.end <= news.len(), "65 900 different tokens: op {:?} does not start at {}/{}", op, oi, ni);
            if tag == DiffTag::Equal {
                claim!(or.len() == nr.len() && !or.is_empty(), "65 900 different tokens: malformed {:?}", op);
                for k in 0..or.len() {
                    if !same(olds[oi + k], news[ni + k]) {
                        engine::must_hold(&txt_eq(olds[oi + k], news[ni + k]), &format!("65 900 different tokens: {:?} pairs different tokens old[{}] / new[{}]", op, oi + k, ni + k));
                    }
                }
            }
            oi = or.end;
            ni = nr.end;
        }
        claim!(oi == olds.len() && ni == news.len(), "65 900 different tokens: the ops end at {}/{} of {}/{}", oi, ni, olds.len(), news.len());
        let equal: usize = ops.iter().filter(|o| o.tag() == DiffTag::Equal).map(|o| o.old_range().len()).sum();
        claim!(equal == 60_000, "65 900 different tokens: {} tokens reported equal, the texts have exactly their first 60 000 tokens in common", equal);
        if self.0 == 1 {
            // C04's walk: non-Insert values are the old tokens in order, non-Delete the new ones
            let (mut oi, mut ni) = (0usize, 0usize);
            for (k, c) in diff.iter_all_changes().enumerate() {
                match c.tag() {
                    ChangeTag::Equal => {
                        claim!(c.old_index() == Some(oi) && c.new_index() == Some(ni) && oi < olds.len() && ni < news.len(), "65 900 different tokens: change #{} Equal carries {:?}/{:?}", k, c.old_index(), c.new_index());
                        claim!(same_slice(c.value(), olds[oi]), "65 900 different tokens: change #{} Equal does not carry old token {}", k, oi);
                        if !same(olds[oi], news[ni]) {
                            engine::must_hold(&txt_eq(olds[oi], news[ni]), &format!("65 900 different tokens: change #{} Equal stands for different tokens old[{}] / new[{}]: the new text is not reconstructed", k, oi, ni));
                        }
                        oi += 1;
                        ni += 1;
                    }
                    ChangeTag::Delete => {
                        claim!(c.old_index() == Some(oi) && c.new_index().is_none() && oi < olds.len() && same_slice(c.value(), olds[oi]), "65 900 different tokens: change #{} Delete is not old token {}", k, oi);
                        oi += 1;
                    }
                    ChangeTag::Insert => {
                        claim!(c.new_index() == Some(ni) && c.old_index().is_none() && ni < news.len() && same_slice(c.value(), news[ni]), "65 900 different tokens: change #{} Insert is not new token {}", k, ni);
                        ni += 1;
                    }
                }
            }
            claim!(oi == olds.len() && ni == news.len(), "65 900 different tokens: the changes cover {}/{} tokens", oi, ni);
        }
        format!("{} ops, {} equal", ops.len(), equal)
    }
}

impl Prop for TextBig {
    type Shape = BigShape;
    fn id(&self) -> &'static str {
        match self.0 {
            1 => "C04b",
            2 => "C17b",
            3 => "C02b",
            _ => "C14b",
        }
    }
    fn shapes(&self, tier: Tier) -> Vec<BigShape> {
        let mut v = vec![];
        // one text diff with more than 65 536 different tokens (encoded as skel = 100 000)
        if self.0 != 2 {
            v.push(BigShape { alg: Algorithm::Myers, tok: Tok::Chars, skel: 100_000, old_extra: vec![], new_extra: vec![] });
        }
        if self.0 == 3 {
            return v;
        }
        let ex = all_extras();
        let mut combos: Vec<(Vec<Extra>, Vec<Extra>)> = vec![(vec![], vec![])];
        for e in &ex {
            combos.push((vec![*e], vec![]));
            combos.push((vec![], vec![*e]));
        }
        // two extras: one per side, or two on one side
        let pairs: Vec<(Extra, Extra)> = match tier {
            Tier::Quick => ex.iter().flat_map(|a| ex.iter().map(move |b| (*a, *b))).filter(|(a, b)| (a.pos as usize * 4 + a.kind as usize + b.pos as usize * 4 + b.kind as usize) % 3 == 0).collect(),
            Tier::Thorough => ex.iter().flat_map(|a| ex.iter().map(move |b| (*a, *b))).collect(),
        };
        for (a, b) in &pairs {
            combos.push((vec![*a], vec![*b]));
            combos.push((vec![*a, *b], vec![]));
            combos.push((vec![], vec![*a, *b]));
        }
        // tails of up to three tokens over {copy of the first skeleton token, a shared fresh token P}
        // appended to both sides (a head token that recurs once in each remainder, next to repeats)
        let mut tails: Vec<Vec<Extra>> = vec![vec![]];
        {
            let mut cur: Vec<Vec<Extra>> = vec![vec![]];
            for _ in 0..3 {
                let mut nx = vec![];
                for t in &cur {
                    for kind in [1u8, 4u8] {
                        let mut u = t.clone();
                        u.push(Extra { pos: 2, kind });
                        nx.push(u);
                    }
                }
                tails.extend(nx.iter().cloned());
                cur = nx;
            }
        }
        // mostly different mid-sized inputs: 130 tokens a side, only the first `shared` ones in
        // common, more than 255 different tokens in total (encoded as skel = 1000 + shared)
        for alg in ALGS {
            for shared in [0usize, 3] {
                v.push(BigShape { alg, tok: Tok::Chars, skel: 1000 + shared, old_extra: vec![], new_extra: vec![] });
            }
        }
        for alg in ALGS {
            if alg == Algorithm::Lcs && tier == Tier::Quick {
                continue;
            }
            for skel in [99usize, 101] {
                for a in &tails {
                    for b in &tails {
                        if a.len() + b.len() >= 3 && a != b {
                            v.push(BigShape { alg, tok: Tok::Chars, skel, old_extra: a.clone(), new_extra: b.clone() });
                        }
                    }
                }
            }
        }
        for alg in ALGS {
            for tok in [Tok::Chars, Tok::Lines] {
                for skel in [99usize, 100, 101, 103] {
                    for (a, b) in &combos {
                        if alg == Algorithm::Lcs && a.len() + b.len() > 1 {
                            continue; // the LCS table over ~100x100 symbolic items is slow; one extra only
                        }
                        if tok == Tok::Lines && (a.len() + b.len() > 1 || skel == 103) {
                            continue;
                        }
                        if tier == Tier::Quick && skel == 103 && a.len() + b.len() > 1 {
                            continue;
                        }
                        v.push(BigShape { alg, tok, skel, old_extra: a.clone(), new_extra: b.clone() });
                    }
                }
            }
        }
        v
    }
    fn run(&self, s: &BigShape) -> String {
        reset_hooks();
        symtxt::reset();
        // replays keep the class-based hash of the symbolic tokens (lawful: equal tokens share a
        // class; coarser than Eq): a result that treats equal hashes as equal tokens reproduces
        engine::keep_constant_hash_in_replay();
        if s.skel >= 100_000 {
            return self.run_huge(s);
        }
        if s.skel >= 1000 {
            return self.run_disjoint(s);
        }
        // skeleton tokens: pairwise different (one z3 distinct over their first characters),
        // each with its own hash class; fresh extras share one class and are assumed to
        // differ from every skeleton token, so the class-based Hash is lawful.
        let skel: Vec<Vec<Sym>> = (0..s.skel)
            .map(|_| {
                let c = symtxt::fresh_char(symtxt::Class::Ord);
                if s.tok == Tok::Lines {
                    vec![c, symtxt::fresh_char(symtxt::Class::Lf)]
                } else {
                    vec![c]
                }
            })
            .collect();
        engine::assume(&F::Distinct(skel.iter().map(|t| t[0].0).collect()));
        for (i, t) in skel.iter().enumerate() {
            engine::set_hash_class(t[0].0, i as u64);
            if t.len() > 1 {
                engine::set_hash_class(t[1].0, 1 << 40);
            }
        }
        let n_skel_ids = skel.iter().map(|t| t.len()).sum::<usize>() as u32;
        let shared: Vec<Sym> = {
            let c = symtxt::fresh_char(symtxt::Class::Ord);
            if s.tok == Tok::Lines {
                vec![c, symtxt::fresh_char(symtxt::Class::Lf)]
            } else {
                vec![c]
            }
        };
        let old = TextBig::side(&skel, &s.old_extra, s.tok, &shared);
        let new = TextBig::side(&skel, &s.new_extra, s.tok, &shared);
        let mut fs = vec![];
        for c in old.iter().chain(new.iter()) {
            if c.0 >= n_skel_ids && symtxt::class_of(*c) == symtxt::Class::Ord {
                engine::set_hash_class(c.0, u64::MAX);
                for t in &skel {
                    fs.push(F::ne(c.0, t[0].0));
                }
            } else if c.0 >= n_skel_ids {
                engine::set_hash_class(c.0, 1 << 40);
            }
        }
        if !fs.is_empty() {
            engine::assume(&F::And(fs));
        }
        let (ot, nt) = (SymTxt::new(&old), SymTxt::new(&new));
        let shape = Shape { old: String::new(), new: String::new(), tok: s.tok, alg: s.alg, nl_override: None };
        let diff = make_diff(&shape, ot, nt);
        let olds = diff.old_slices().to_vec();
        let news = diff.new_slices().to_vec();
        let ops = diff.ops().to_vec();
        if olds.len() > 100 || news.len() > 100 {
            engine::witness("paths_above_the_threshold");
        } else {
            engine::witness("paths_at_or_below_the_threshold");
        }
        if self.0 == 2 {
            let remap = TextDiffRemapper::from_text_diff(&diff, ot, nt);
            let mut all: Vec<(ChangeTag, &SymTxt)> = vec![];
            for op in &ops {
                all.extend(remap.iter_slices(op));
            }
            check_slices(&all, &old, &new, "remapper.iter_slices over all ops (more than 100 tokens)");
            let helper: Vec<(ChangeTag, &SymTxt)> = if s.tok == Tok::Lines { similar::utils::diff_lines(s.alg, ot, nt) } else { similar::utils::diff_chars(s.alg, ot, nt) };
            check_slices(&helper, &old, &new, "utils::diff_{lines,chars} (more than 100 tokens)");
            if s.tok == Tok::Chars {
                let ds: Vec<(ChangeTag, &[Sym])> = similar::utils::diff_slices(s.alg, &old[..], &new[..]);
                let conv: Vec<(ChangeTag, &SymTxt)> = ds.iter().map(|(t, x)| (*t, SymTxt::new(x))).collect();
                check_slices(&conv, &old, &new, "utils::diff_slices (more than 100 items)");
            }
            if ops.iter().any(|o| o.tag() != DiffTag::Equal) {
                engine::witness("paths_with_changes");
            }
            return format!("{:?}", ops);
        }
        if self.0 == 1 {
            check_partition(&olds, &old, "old");
            check_partition(&news, &new, "new");
            let all: Vec<Change<&SymTxt>> = diff.iter_all_changes().collect();
            check_changes(&all, &olds, &news, "iter_all_changes (more than 100 tokens)");
            let per_op: Vec<Change<&SymTxt>> = ops.iter().flat_map(|op| diff.iter_changes(op)).collect();
            check_changes(&per_op, &olds, &news, "ops().flat_map(iter_changes) (more than 100 tokens)");
            if ops.iter().any(|o| o.tag() != DiffTag::Equal) {
                engine::witness("paths_with_changes");
            }
            return format!("{:?}", ops);
        }
        let direct = capture_diff_slices(s.alg, &olds, &news);
        claim!(
            ops == direct,
            "with {} / {} tokens the text diff ops differ from capture_diff_slices over the same tokens: {:?} vs {:?}",
            olds.len(), news.len(), ops, direct
        );
        claim!(diff.algorithm() == s.alg, "algorithm() reports {:?}", diff.algorithm());
        // the same with a deadline that has already passed (virtual clock: always expired): the
        // text diff and the direct diff of the token slices give up at the same points
        {
            similar::verif_clock::install(Some(Box::new(|_| true)));
            let mut cfg = TextDiff::configure();
            cfg.algorithm(s.alg);
            cfg.deadline(any_instant().unwrap());
            let d2 = if s.tok == Tok::Lines { cfg.diff_lines(ot, nt) } else { cfg.diff_chars(ot, nt) };
            let direct2 = similar::capture_diff_slices_deadline(s.alg, &olds, &news, any_instant());
            similar::verif_clock::install(None);
            claim!(
                d2.ops() == &direct2[..],
                "with a deadline that has already passed and {} / {} tokens the text diff ops differ from capture_diff_slices_deadline over the same tokens: {:?} vs {:?}",
                olds.len(), news.len(), d2.ops(), direct2
            );
            engine::witness("paths_with_an_expired_deadline");
        }
        // the ops are a valid script for the token sequences (tokens compared as whole SymTxt)
        let (mut oc, mut nc) = (0usize, 0usize);
        for op in &ops {
            let (tag, o, n) = op.as_tag_tuple();
            // only the consumed side(s) are positions here; carried indices are C11's business
            let placed = match tag {
                DiffTag::Delete => o.start == oc,
                DiffTag::Insert => n.start == nc,
                _ => o.start == oc && n.start == nc,
            };
            claim!(placed && o.end <= olds.len() && n.end <= news.len(), "op {:?} out of place in {:?}", op, ops);
            if tag == DiffTag::Equal {
                for (i, j) in o.clone().zip(n.clone()) {
                    engine::must_hold(&txt_eq(olds[i], news[j]), &format!("Equal op {:?} pairs different tokens {} / {}", op, i, j));
                }
            }
            oc += o.len();
            nc += n.len();
        }
        claim!(oc == olds.len() && nc == news.len(), "ops do not cover the token sequences");
        if ops.iter().any(|o| o.tag() != DiffTag::Equal) {
            engine::witness("paths_with_changes");
        }
        engine::offer_sample(|| json!({"shape": self.shape_json(s), "path_condition": engine::path_condition(), "old_tokens": olds.len(), "new_tokens": news.len(), "ops": ops_json(&ops)}));
        format!("{:?}", ops)
    }
    fn cost(&self, s: &BigShape) -> u64 {
        (s.old_extra.len() + s.new_extra.len()) as u64 + if s.alg == Algorithm::Lcs { 10 } else { 0 }
    }
    fn recheck_every(&self, tier: Tier) -> u64 {
        match tier {
            Tier::Quick => 4,
            Tier::Thorough => 16,
        }
    }
    fn shape_json(&self, s: &BigShape) -> Value {
        let e = |x: &Vec<Extra>| x.iter().map(|e| json!([e.pos, e.kind])).collect::<Vec<_>>();
        json!({"alg": alg_name(s.alg), "tok": s.tok.name(), "skeleton_tokens": s.skel, "old_extra": e(&s.old_extra), "new_extra": e(&s.new_extra)})
    }
    fn shape_from(&self, v: &Value) -> BigShape {
        let e = |k: &str| -> Vec<Extra> { v[k].as_array().unwrap().iter().map(|x| Extra { pos: x[0].as_u64().unwrap() as u8, kind: x[1].as_u64().unwrap() as u8 }).collect() };
        BigShape { alg: alg_from(v["alg"].as_str().unwrap()), tok: Tok::from(v["tok"].as_str().unwrap()), skel: v["skeleton_tokens"].as_u64().unwrap() as usize, old_extra: e("old_extra"), new_extra: e("new_extra") }
    }
    fn describe(&self, s: &BigShape, ints: &[i64], _b: &[bool]) -> Value {
        json!({"shape": self.shape_json(s), "note": "skeleton tokens are pairwise different; extras: [position 0/1/2 = front/middle/end, kind 0 = fresh token, 1/2/3 = copy of first/middle/last skeleton token, 4 = the shared fresh token P]", "values_of_free_characters": ints.iter().skip(s.skel * if s.tok == Tok::Lines { 2 } else { 1 }).collect::<Vec<_>>()})
    }
    fn meta(&self, tier: Tier) -> Meta {
        Meta {
            functions: vec![
                "similar::TextDiffConfig::diff (the `old.len() > 100 || new.len() > 100` branch): IdentifyDistinct::<u32>::new over &SymTxt tokens + capture_diff_deadline over the integer lookups",
                "similar::capture_diff_slices over the same tokens (the reference)",
            ],
            bounds: format!("token counts on both sides of the threshold: a shared skeleton of 99 / 100 / 101 / 103 pairwise-different tokens plus up to 2 extra tokens at the front / middle / end of either side ({}), each extra either a fresh symbolic token or a copy of the first / middle / last skeleton token; plus two inputs of 130 tokens a side with more than 255 different tokens in total; plus (C14b / C04b / C02b) one Myers character diff with 65 900 different tokens - 63 300 against 63 000 two-unit characters over two pools of 260 pairwise different units, the first 60 000 in common, the old text ending in a second copy of its first 400 tokens: valid script, Equal ops pair equal tokens, exactly 60 000 equal, C04's walk over iter_all_changes; plus tails of up to three tokens over (copy of the first skeleton token, one shared fresh token) appended to both sides; char tokens and line tokens; 3 algorithms (LCS and line tokens: at most one extra)", match tier { Tier::Quick => "a third of the two-extra combinations", Tier::Thorough => "all two-extra combinations" }),
            outside: "fresh extra tokens are assumed different from every skeleton token (coinciding is covered only by the explicit 'copy' kinds); unstructured inputs above the threshold (path explosion); other tokenizers above the threshold (the code path does not depend on the tokenizer)".into(),
            assumptions: vec!["class-based Hash for this family (skeleton token i -> i, fresh tokens -> one class), lawful under the stated assumption; native re-executions keep this hash (an item type whose Hash is coarser than its Eq)".into()],
            required_witnesses: match self.0 {
                3 => vec!["paths_with_more_than_65536_different_tokens"],
                2 => vec!["paths_above_the_threshold", "paths_at_or_below_the_threshold", "paths_with_changes", "paths_with_more_than_255_different_tokens"],
                _ => vec!["paths_above_the_threshold", "paths_at_or_below_the_threshold", "paths_with_changes", "paths_with_more_than_255_different_tokens", "paths_with_more_than_65536_different_tokens"],
            },
            rule: "one state = one explored path for one skeleton shape".into(),
        }
    }
}
