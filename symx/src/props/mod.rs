use serde_json::Value;

pub mod c01;
pub mod captured;
pub mod adapters;
pub mod closematch;
pub mod deadline;
pub mod hookproto;
pub mod inline;
pub mod misc;
pub mod text;
pub mod udiff;

#[derive(Clone, Copy, PartialEq, Eq, Debug)]
pub enum Tier {
    Quick,
    Thorough,
}
impl Tier {
    pub fn name(&self) -> &'static str {
        match self {
            Tier::Quick => "quick",
            Tier::Thorough => "thorough",
        }
    }
}

pub struct Meta {
    pub functions: Vec<&'static str>,
    pub bounds: String,
    pub outside: String,
    pub assumptions: Vec<String>,
    /// witness classes that must be non-empty (vacuity guard)
    pub required_witnesses: Vec<&'static str>,
    pub rule: String,
}

pub trait Prop: Sync {
    type Shape: Send + Sync + Clone;
    fn id(&self) -> &'static str;
    fn shapes(&self, tier: Tier) -> Vec<Self::Shape>;
    /// One symbolic (or concrete) run; returns the observation of the path.
    fn run(&self, s: &Self::Shape) -> String;
    fn shape_json(&self, s: &Self::Shape) -> Value;
    fn shape_from(&self, v: &Value) -> Self::Shape;
    fn meta(&self, tier: Tier) -> Meta;
    /// If a reproduced violation is attributable to a listed call site, name
    /// the site (it is then looked up in known_findings.json).
    fn attribute(&self, _s: &Self::Shape, _ints: &[i64], _bools: &[bool], _msg: &str) -> Option<String> {
        None
    }
    /// human-readable rendering of the concrete inputs of a counterexample
    fn describe(&self, _s: &Self::Shape, _ints: &[i64], _bools: &[bool]) -> Value {
        Value::Null
    }
    /// relative cost estimate of a shape (bigger = started earlier)
    fn cost(&self, _s: &Self::Shape) -> u64 {
        1
    }
    fn split_depth(&self) -> usize {
        6
    }
    fn recheck_every(&self, tier: Tier) -> u64 {
        match tier {
            Tier::Quick => 16,
            Tier::Thorough => 64,
        }
    }
}
