//! Shared harness pieces: index layouts, the online monitor hook, op-list
//! validators, reference LCS.
use crate::claim;
use crate::engine::{self, F};
use crate::sym::Sym;
use similar::algorithms::DiffHook;
use similar::{Algorithm, DiffOp, DiffTag};
use std::ops::{Index, Range};

pub const ALGS: [Algorithm; 3] = [Algorithm::Myers, Algorithm::Patience, Algorithm::Lcs];

pub fn alg_name(a: Algorithm) -> &'static str {
    match a {
        Algorithm::Myers => "myers",
        Algorithm::Patience => "patience",
        Algorithm::Lcs => "lcs",
    }
}
pub fn alg_from(s: &str) -> Algorithm {
    match s {
        "myers" => Algorithm::Myers,
        "patience" => Algorithm::Patience,
        "lcs" => Algorithm::Lcs,
        _ => panic!("bad algorithm {}", s),
    }
}

/// An `Index<usize>` implementation that only knows positions `base..base+len`
/// (mirrors `similar`'s own OffsetLookup): indexing outside panics.
pub struct Offset {
    pub base: usize,
    pub items: Vec<Sym>,
}
impl Index<usize> for Offset {
    type Output = Sym;
    fn index(&self, i: usize) -> &Sym {
        if i < self.base || i - self.base >= self.items.len() {
            panic!(
                "offset lookup indexed at {} outside {}..{}",
                i,
                self.base,
                self.base + self.items.len()
            );
        }
        &self.items[i - self.base]
    }
}

/// How the caller's sequences are laid out around the diffed ranges.
#[derive(Clone, Copy, Debug, PartialEq, Eq)]
pub enum Layout {
    /// plain slices with `pre`/`post` padding items around each range
    Slice {
        pre_o: usize,
        post_o: usize,
        pre_n: usize,
        post_n: usize,
    },
    /// offset lookups valid only on the range
    Offset { off_o: usize, off_n: usize },
    /// block-structured whole slices: each side is a sequence of up to 5 blocks drawn from
    /// 3 block types (255 = no block); a block type is `blen` items (type 1: one item fewer); all items of all block
    /// types are assumed pairwise different (one z3 distinct), so the equality pattern is
    /// fixed by the shape and there is a single path.  Covers block moves, duplicated blocks,
    /// repeated items across a shared head / tail on inputs of up to 15 items a side.
    Blocks { old: [u8; 5], new: [u8; 5], blen: usize },
    /// long structured inputs (dozens to hundreds of items): a named family `fam` with size
    /// parameter `k` and variant `var` (see `long_pattern`); each side is a sequence over a pool
    /// of pairwise different symbolic items (one z3 distinct, one hash class per pool item), so
    /// the equality pattern is fixed by the shape and there is a single path.  `pad`: bits 0-1 /
    /// 2-3 = number of extra (different) items in front of the old / new range (sub-ranges at
    /// unequal offsets); bit 4 = offset lookups that are valid only on the ranges instead of slices; bit 5 = lookups
    /// into one interned pool shared by both sides (equal items are the same object in memory).
    Long { fam: u8, k: u16, var: u8, pad: u8 },
}

/// The item pattern (indices into the pool of pairwise different items) of a long family.
pub fn long_pattern(fam: u8, k: usize, var: u8) -> (Vec<u32>, Vec<u32>, &'static str) {
    let rep = |unit: &[u32], times: usize| -> Vec<u32> { (0..times).flat_map(|_| unit.iter().copied()).collect() };
    let cat = |parts: &[&[u32]]| -> Vec<u32> { parts.iter().flat_map(|p| p.iter().copied()).collect() };
    match fam {
        // a long changed stretch of repeated items between two items that are unique on both sides
        0 => {
            let (o, n) = (rep(&[2, 3], k), rep(&[3, 2], k));
            match var {
                0 => (cat(&[&[0], &o, &[1]]), cat(&[&[0], &n, &[1]]), "U (A B)^k V  against  U (B A)^k V"),
                1 => (cat(&[&[0], &o, &[1]]), cat(&[&[0], &n, &[1, 4]]), "U (A B)^k V  against  U (B A)^k V W"),
                _ => (cat(&[&[5, 0], &o, &[1], &o, &[6]]), cat(&[&[5, 0], &n, &[1], &n, &[6]]), "T U (A B)^k V (A B)^k X  against  T U (B A)^k V (B A)^k X"),
            }
        }
        // few unique items in a long repetitive body, moved across it
        1 => match var {
            0 => (cat(&[&[0, 1], &rep(&[2, 3], k)]), cat(&[&rep(&[2, 3], k), &[0, 1]]), "U1 U2 (A B)^k  against  (A B)^k U1 U2"),
            1 => (cat(&[&[0], &rep(&[2, 3], k)]), cat(&[&rep(&[2, 3], k), &[0]]), "U (A B)^k  against  (A B)^k U"),
            2 => (cat(&[&[0, 1], &rep(&[2, 3, 4], k)]), cat(&[&rep(&[2, 3, 4], k), &[0, 1]]), "U1 U2 (A B C)^k  against  (A B C)^k U1 U2"),
            _ => (cat(&[&rep(&[2, 3], k), &[0], &rep(&[2, 3], 3), &[1]]), cat(&[&[1], &rep(&[2, 3], k), &[0], &rep(&[2, 3], 3)]), "(A B)^k U1 (A B)^3 U2  against  U2 (A B)^k U1 (A B)^3"),
        },
        // k different items a side with only a few common items in the interior
        2 => {
            let mut o: Vec<u32> = (0..k as u32).map(|i| 10 + i).collect();
            let mut n: Vec<u32> = (0..k as u32).map(|i| 10 + k as u32 + i).collect();
            let name = match var {
                0 => {
                    for (j, p) in [k / 4, k / 2, 3 * k / 4].iter().enumerate() {
                        o[*p] = 1 + j as u32;
                        n[*p] = 1 + j as u32;
                    }
                    "k different items a side, 3 common items at the same interior positions"
                }
                1 => {
                    for (j, (p, q)) in [(k / 4, k / 4 + 5), (k / 2, k / 2 - 7), (3 * k / 4, 3 * k / 4 + 3)].iter().enumerate() {
                        o[*p] = 1 + j as u32;
                        n[*q] = 1 + j as u32;
                    }
                    "k different items a side, 3 common items at shifted interior positions"
                }
                _ => {
                    o[k / 2] = 1;
                    n[k / 3] = 1;
                    "k different items a side, 1 common item"
                }
            };
            (o, n, name)
        }
        // every value twice, three positions apart, one value only once near the front
        3 => {
            let mut o = vec![];
            for j in 0..(k / 2) as u32 {
                o.push(j + 1);
                o.push(j);
            }
            o.push((k / 2) as u32);
            let mut n = o.clone();
            let name = match var {
                0 => "1 0 2 1 3 2 ... (every value twice, 0 once)  against itself",
                1 => {
                    let p = 3 * n.len() / 4;
                    n[p] = 100_000;
                    "1 0 2 1 3 2 ...  against itself with one item replaced"
                }
                _ => {
                    n.insert(n.len() / 2, 100_000);
                    "1 0 2 1 3 2 ...  against itself with one item inserted"
                }
            };
            (o, n, name)
        }
        // long runs / periodic stretches that grow or shrink by one period
        4 => match var {
            0 => (rep(&[0], k), rep(&[0], k + 1), "x^k  against  x^(k+1)"),
            1 => (rep(&[0, 1], k), rep(&[0, 1], k + 1), "(a b)^k  against  (a b)^(k+1)"),
            2 => (rep(&[0, 1, 2], k), rep(&[0, 1, 2], k + 1), "(a b c)^k  against  (a b c)^(k+1)"),
            3 => (rep(&[0], k), rep(&[0], k - 1), "x^k  against  x^(k-1)"),
            4 => (cat(&[&[5], &rep(&[0], k), &[6]]), cat(&[&[5], &rep(&[0], k + 1), &[6]]), "p x^k q  against  p x^(k+1) q"),
            _ => (cat(&[&[5], &rep(&[0, 1], k), &[6]]), cat(&[&[5], &rep(&[0, 1], k - 1), &[6]]), "p (a b)^k q  against  p (a b)^(k-1) q"),
        },
        // k different items with one adjacent duplicate (block) removed / added
        5 => {
            let base: Vec<u32> = (0..k as u32).collect();
            let mut dup = base.clone();
            let name = match var {
                0 | 1 => {
                    dup.insert(k / 2, base[k / 2]);
                    "k different items, one of them doubled  against  the k items (and the reverse)"
                }
                _ => {
                    for (j, x) in base[k / 2..k / 2 + 3].iter().enumerate() {
                        dup.insert(k / 2 + 3 + j, *x);
                    }
                    "k different items, a block of 3 doubled  against  the k items (and the reverse)"
                }
            };
            if var % 2 == 0 {
                (dup, base, name)
            } else {
                (base, dup, name)
            }
        }
        // lopsided: 3 items against k different ones (optionally behind a common prefix of 12)
        7 => {
            let few: Vec<u32> = vec![1, 2, 3];
            let mut many: Vec<u32> = (0..k as u32).map(|i| 100 + i).collect();
            let pre: Vec<u32> = (0..12u32).map(|i| 50 + i).collect();
            match var {
                0 => (few, many, "3 items against k different ones, nothing in common"),
                1 => {
                    many[k / 2] = 2;
                    (few, many, "3 items against k different ones, the middle one in common")
                }
                2 => (many, few, "k different items against 3, nothing in common"),
                _ => {
                    many[k / 3] = 3;
                    (cat(&[&pre, &few]), cat(&[&pre, &many]), "a common prefix of 12, then 3 items against k different ones with one in common")
                }
            }
        }
        // pseudo-random sequences over a small alphabet (2..=4 symbols): a fixed generator, the
        // variant is its seed; lengths k and k-2..=k+2
        8 => {
            let mut state: u64 = 0x9E37_79B9_7F4A_7C15u64.wrapping_mul(k as u64 + 1) ^ (var as u64).wrapping_mul(0xD1B5_4A32_D192_ED03);
            let mut next = move || {
                state ^= state << 13;
                state ^= state >> 7;
                state ^= state << 17;
                state
            };
            let alpha = 2 + (var % 3) as u64;
            let m = (k as i64 + (next() % 5) as i64 - 2).max(1) as usize;
            let o: Vec<u32> = (0..k).map(|_| (next() % alpha) as u32).collect();
            let n: Vec<u32> = (0..m).map(|_| (next() % alpha) as u32).collect();
            (o, n, "pseudo-random sequences over 2..=4 symbols (fixed xorshift generator, variant = seed)")
        }
        // two blocks of different items that swapped places (all items unique on both sides)
        9 => {
            let a: Vec<u32> = (0..k as u32).collect();
            let bl = match var {
                0 => k,
                1 => k / 2,
                _ => k + 7,
            };
            let b: Vec<u32> = (0..bl as u32).map(|i| 50_000 + i).collect();
            match var {
                0 | 1 => (cat(&[&a, &b]), cat(&[&b, &a]), "A B  against  B A (blocks of k and k or k/2 different items)"),
                _ => (cat(&[&[90_000], &a, &[90_001], &b]), cat(&[&[90_000], &b, &[90_001], &a]), "p A q B  against  p B q A (blocks of k and k+7 different items)"),
            }
        }
        // mostly similar inputs with many small edits, then two blocks that swapped places (the
        // shorter one first on the old side, with old-only items between them), then unrelated tails
        10 => {
            let (mut o, mut n): (Vec<u32>, Vec<u32>) = (vec![], vec![]);
            for i in 0..k as u32 {
                if i % 2 == 0 {
                    o.push(100_000 + i);
                } else {
                    n.push(200_000 + i);
                }
                for c in 0..2 {
                    o.push(10_000 + 2 * i + c);
                    n.push(10_000 + 2 * i + c);
                }
            }
            let rl = (k / 8).max(20) as u32;
            let (jl, sl, tl) = (20u32, rl + 10 + 5 * var as u32, (5 * k / 8) as u32);
            let r: Vec<u32> = (0..rl).map(|i| 1_000 + i).collect();
            let j: Vec<u32> = (0..jl).map(|i| 3_000 + i).collect();
            let s: Vec<u32> = (0..sl).map(|i| 5_000 + i).collect();
            let to: Vec<u32> = (0..tl).map(|i| 300_000 + i).collect();
            let tn: Vec<u32> = (0..tl).map(|i| 400_000 + i).collect();
            (cat(&[&o, &r, &j, &s, &to]), cat(&[&n, &s, &r, &tn]), "k small edits in equal material, then R J S against S R (|R| < |S|), then unrelated tails")
        }
        // k different items, every 16th replaced
        _ => {
            let o: Vec<u32> = (0..k as u32).collect();
            let n: Vec<u32> = (0..k as u32).map(|i| if i % 16 == 7 { 100_000 + i } else { i }).collect();
            (o, n, "k different items  against  the same with every 16th item replaced")
        }
    }
}

/// The long structured families used by the per-property checks.
pub fn long_layouts(thorough: bool) -> Vec<Layout> {
    let mut v = vec![];
    let quick: &[(u8, u16, u8)] = &[
        (0, 20, 0), (0, 40, 1), (0, 17, 2), (1, 75, 0), (1, 60, 1), (1, 50, 2), (1, 70, 3), (2, 300, 0), (2, 280, 1), (2, 130, 2),
        (3, 101, 0), (3, 151, 1), (3, 61, 2), (4, 150, 0), (4, 60, 1), (4, 40, 2), (4, 120, 3), (4, 130, 4), (4, 70, 5),
        (5, 130, 0), (5, 130, 1), (5, 120, 2), (5, 120, 3), (6, 160, 0),
        // search depths of 500..1500 rounds
        (2, 520, 0), (7, 3000, 0), (7, 2600, 2), (9, 260, 0), (9, 300, 1), (9, 257, 2),
    ];
    let more: &[(u8, u16, u8)] = &[
        (0, 33, 0), (0, 64, 0), (0, 100, 1), (1, 150, 0), (1, 128, 1), (1, 100, 2), (2, 700, 0), (2, 400, 1), (2, 257, 2),
        (3, 301, 0), (3, 401, 1), (3, 201, 2), (4, 300, 0), (4, 128, 1), (4, 101, 2), (4, 257, 3), (4, 256, 4), (4, 129, 5),
        (5, 101, 0), (5, 257, 1), (5, 300, 2), (5, 99, 3), (6, 400, 0),
    ];
    // mid-sized inputs (8..64 items a side): between the fully symbolic shapes and the long ones
    let mid: &[(u8, u16, u8)] = &[
        (0, 4, 0), (0, 6, 1), (0, 9, 2), (0, 15, 0), (1, 4, 0), (1, 8, 1), (1, 12, 2), (1, 5, 3), (2, 9, 0), (2, 17, 1), (2, 24, 0), (2, 33, 2), (2, 48, 1),
        (3, 9, 0), (3, 17, 1), (3, 25, 2), (3, 33, 0), (4, 8, 0), (4, 9, 1), (4, 11, 2), (4, 16, 3), (4, 17, 0), (4, 31, 4), (4, 33, 0), (4, 16, 5),
        (5, 9, 0), (5, 16, 1), (5, 20, 2), (5, 33, 3), (5, 63, 0), (5, 64, 1), (6, 17, 0), (6, 40, 0), (6, 64, 0),
        (7, 30, 0), (7, 40, 1), (7, 33, 2), (7, 30, 3), (7, 300, 1), (9, 12, 0), (9, 30, 1), (9, 20, 2),
    ];
    for &(fam, k, var) in mid.iter().chain(quick.iter()).chain(if thorough { more.iter() } else { [].iter() }) {
        v.push(Layout::Long { fam, k, var, pad: 0 });
    }
    // pseudo-random small-alphabet sequences of 12..60 items (raw scripts of dozens of ops)
    let seed = std::env::var("VERIF_SEED").ok().and_then(|s| s.parse::<u64>().ok()).unwrap_or(0);
    for i in 0..(if thorough { 240u64 } else { 90 }) {
        let k = 12 + ((i * 7 + seed * 13) % 49) as u16;
        let var = ((i * 5 + seed) % 251) as u8;
        v.push(Layout::Long { fam: 8, k, var, pad: if i % 9 == 4 { 0b0110 } else { 0 } });
    }
    // offset lookups (an Index type other than a slice), also at unequal bases
    // interned lookups sharing one pool
    for &(fam, k, var, pad) in &[(0u8, 4u16, 0u8, 32u8), (0, 9, 2, 32), (3, 9, 1, 32), (5, 9, 0, 32), (4, 9, 1, 32), (1, 8, 1, 32 + 0b0100), (0, 20, 0, 32), (5, 130, 1, 32), (6, 40, 0, 32), (2, 33, 1, 32)] {
        v.push(Layout::Long { fam, k, var, pad });
    }
    for &(fam, k, var, pad) in &[(0u8, 9u16, 2u8, 16u8), (2, 33, 2, 16), (3, 17, 1, 16 + 0b0110), (4, 17, 0, 16), (5, 20, 2, 16 + 0b0001), (1, 60, 1, 16), (2, 130, 2, 16 + 0b1000), (4, 150, 0, 16)] {
        v.push(Layout::Long { fam, k, var, pad });
    }
    // sub-ranges at unequal offsets
    for &(fam, k, var, pad) in &[(7u8, 30u16, 0u8, 0b1111u8), (7, 40, 1, 0b1111), (7, 33, 2, 0b0111), (7, 30, 3, 0b0101), (2, 24, 0, 0b1111), (6, 40, 0, 0b1010)] {
        v.push(Layout::Long { fam, k, var, pad });
    }
    for &(fam, k, var, pad) in &[(0u8, 20u16, 0u8, 0b0110u8), (2, 300, 0, 0b0001), (4, 150, 0, 0b1000), (5, 130, 0, 0b0111), (1, 75, 0, 0b0100), (3, 101, 1, 0b1001)] {
        v.push(Layout::Long { fam, k, var, pad });
    }
    v
}

impl Layout {
    pub fn to_json(&self) -> serde_json::Value {
        match *self {
            Layout::Slice {
                pre_o,
                post_o,
                pre_n,
                post_n,
            } => serde_json::json!({"kind":"slice","pre_o":pre_o,"post_o":post_o,"pre_n":pre_n,"post_n":post_n}),
            Layout::Offset { off_o, off_n } => {
                serde_json::json!({"kind":"offset","off_o":off_o,"off_n":off_n})
            }
            Layout::Blocks { old, new, blen } => {
                serde_json::json!({"kind":"blocks","old":old.to_vec(),"new":new.to_vec(),"blen":blen})
            }
            Layout::Long { fam, k, var, pad } => {
                serde_json::json!({"kind":"long","fam":fam,"k":k,"var":var,"pad":pad,"pattern":long_pattern(fam, k as usize, var).2})
            }
        }
    }
    pub fn from_json(v: &serde_json::Value) -> Layout {
        let g = |k: &str| v[k].as_u64().unwrap() as usize;
        if v["kind"] == "slice" {
            Layout::Slice {
                pre_o: g("pre_o"),
                post_o: g("post_o"),
                pre_n: g("pre_n"),
                post_n: g("post_n"),
            }
        } else if v["kind"] == "long" {
            Layout::Long { fam: g("fam") as u8, k: g("k") as u16, var: g("var") as u8, pad: g("pad") as u8 }
        } else if v["kind"] == "blocks" {
            let arr = |k: &str| -> [u8; 5] {
                let mut a = [255u8; 5];
                for (i, x) in v[k].as_array().unwrap().iter().enumerate() {
                    a[i] = x.as_u64().unwrap() as u8;
                }
                a
            };
            Layout::Blocks { old: arr("old"), new: arr("new"), blen: g("blen") }
        } else {
            Layout::Offset {
                off_o: g("off_o"),
                off_n: g("off_n"),
            }
        }
    }
    pub fn is_plain(&self) -> bool {
        matches!(
            self,
            Layout::Slice {
                pre_o: 0,
                post_o: 0,
                pre_n: 0,
                post_n: 0
            }
        )
    }
}

/// An `Index<usize>` implementation over an interned pool: position i holds `&pool[ids[i]]`,
/// so equal items at different positions (and on both sides, which share the pool) are the
/// very same object in memory.  Only positions `base..base+len` are valid.
pub struct Pooled {
    pub base: usize,
    pub pool: std::rc::Rc<Vec<Sym>>,
    pub ids: Vec<usize>,
}
impl Index<usize> for Pooled {
    type Output = Sym;
    fn index(&self, i: usize) -> &Sym {
        if i < self.base || i - self.base >= self.ids.len() {
            panic!("pooled lookup indexed at {} outside {}..{}", i, self.base, self.base + self.ids.len());
        }
        &self.pool[self.ids[i - self.base]]
    }
}

/// Concrete sequences for one run.
pub enum Seq {
    Slice(Vec<Sym>),
    Offset(Offset),
    Pooled(Pooled),
}
impl Index<usize> for Seq {
    type Output = Sym;
    fn index(&self, i: usize) -> &Sym {
        match self {
            Seq::Slice(v) => &v[i],
            Seq::Offset(o) => &o[i],
            Seq::Pooled(p) => &p[i],
        }
    }
}

pub struct Inputs {
    pub old: Seq,
    pub new: Seq,
    pub or: Range<usize>,
    pub nr: Range<usize>,
    /// the items of the two ranges, extracted
    pub old_items: Vec<Sym>,
    pub new_items: Vec<Sym>,
}

/// Allocates the symbolic inputs of a shape, always in the same order.
pub fn make_inputs(n: usize, m: usize, layout: Layout) -> Inputs {
    match layout {
        Layout::Slice {
            pre_o,
            post_o,
            pre_n,
            post_n,
        } => {
            let old = Sym::fresh_vec(pre_o + n + post_o);
            let new = Sym::fresh_vec(pre_n + m + post_n);
            let or = pre_o..pre_o + n;
            let nr = pre_n..pre_n + m;
            Inputs {
                old_items: old[or.clone()].to_vec(),
                new_items: new[nr.clone()].to_vec(),
                old: Seq::Slice(old),
                new: Seq::Slice(new),
                or,
                nr,
            }
        }
        Layout::Blocks { old, new, blen } => {
            let pool: Vec<Vec<Sym>> = (0..3).map(|t| Sym::fresh_vec(block_type_len(t, blen))).collect();
            let ids: Vec<u32> = pool.iter().flatten().map(|x| x.0).collect();
            engine::assume(&F::Distinct(ids.clone()));
            for id in ids {
                engine::set_hash_class(id, id as u64);
            }
            let build = |bs: &[u8; 5]| -> Vec<Sym> { bs.iter().filter(|b| **b != 255).flat_map(|b| pool[*b as usize].iter().copied()).collect() };
            let (o, nw) = (build(&old), build(&new));
            Inputs {
                or: 0..o.len(),
                nr: 0..nw.len(),
                old_items: o.clone(),
                new_items: nw.clone(),
                old: Seq::Slice(o),
                new: Seq::Slice(nw),
            }
        }
        Layout::Long { fam, k, var, pad } => {
            let (po, pn, _) = long_pattern(fam, k as usize, var);
            let (pre_o, pre_n) = ((pad & 3) as usize, ((pad >> 2) & 3) as usize);
            let mut pool: std::collections::BTreeMap<u32, Sym> = std::collections::BTreeMap::new();
            for x in po.iter().chain(pn.iter()) {
                pool.entry(*x).or_insert_with(Sym::fresh);
            }
            let pads = Sym::fresh_vec(pre_o + pre_n);
            let ids: Vec<u32> = pool.values().chain(pads.iter()).map(|x| x.0).collect();
            engine::assume(&F::Distinct(ids.clone()));
            for id in ids {
                engine::set_hash_class(id, id as u64);
            }
            let oi: Vec<Sym> = po.iter().map(|x| pool[x]).collect();
            let ni: Vec<Sym> = pn.iter().map(|x| pool[x]).collect();
            if pad & 32 != 0 {
                // interned lookups: both sides index into one shared pool (equal items are the same object)
                let keys: Vec<u32> = pool.keys().copied().collect();
                let store: std::rc::Rc<Vec<Sym>> = std::rc::Rc::new(keys.iter().map(|k| pool[k]).collect());
                let at = |x: &u32| keys.binary_search(x).unwrap();
                let (bo, bn) = (pre_o, 2 + pre_n);
                return Inputs {
                    or: bo..bo + oi.len(),
                    nr: bn..bn + ni.len(),
                    old: Seq::Pooled(Pooled { base: bo, pool: store.clone(), ids: po.iter().map(at).collect() }),
                    new: Seq::Pooled(Pooled { base: bn, pool: store, ids: pn.iter().map(at).collect() }),
                    old_items: oi,
                    new_items: ni,
                };
            }
            if pad & 16 != 0 {
                // offset lookups valid only on the ranges (an Index type other than a slice)
                let (bo, bn) = (5 + pre_o, 1 + pre_n);
                return Inputs {
                    or: bo..bo + oi.len(),
                    nr: bn..bn + ni.len(),
                    old: Seq::Offset(Offset { base: bo, items: oi.clone() }),
                    new: Seq::Offset(Offset { base: bn, items: ni.clone() }),
                    old_items: oi,
                    new_items: ni,
                };
            }
            let o: Vec<Sym> = pads[..pre_o].iter().chain(oi.iter()).copied().collect();
            let nw: Vec<Sym> = pads[pre_o..].iter().chain(ni.iter()).copied().collect();
            Inputs {
                or: pre_o..o.len(),
                nr: pre_n..nw.len(),
                old_items: oi,
                new_items: ni,
                old: Seq::Slice(o),
                new: Seq::Slice(nw),
            }
        }
        Layout::Offset { off_o, off_n } => {
            let old = Sym::fresh_vec(n);
            let new = Sym::fresh_vec(m);
            Inputs {
                old_items: old.clone(),
                new_items: new.clone(),
                old: Seq::Offset(Offset {
                    base: off_o,
                    items: old,
                }),
                new: Seq::Offset(Offset {
                    base: off_n,
                    items: new,
                }),
                or: off_o..off_o + n,
                nr: off_n..off_n + m,
            }
        }
    }
}

#[derive(Clone, Copy, PartialEq, Eq, Debug)]
pub enum Call {
    Equal(usize, usize, usize),
    Delete(usize, usize, usize),
    Insert(usize, usize, usize),
    Replace(usize, usize, usize, usize),
    Finish,
}

impl Call {
    pub fn shifted(&self, o: usize, n: usize) -> Call {
        match *self {
            Call::Equal(a, b, l) => Call::Equal(a + o, b + n, l),
            Call::Delete(a, l, b) => Call::Delete(a + o, l, b + n),
            Call::Insert(a, b, l) => Call::Insert(a + o, b + n, l),
            Call::Replace(a, al, b, bl) => Call::Replace(a + o, al, b + n, bl),
            Call::Finish => Call::Finish,
        }
    }
}

/// Online monitor for the raw callback stream (property C01's oracle).
pub struct Mon<'a> {
    old: &'a dyn Index<usize, Output = Sym>,
    new: &'a dyn Index<usize, Output = Sym>,
    or: Range<usize>,
    nr: Range<usize>,
    pub oc: usize,
    pub nc: usize,
    pub finished: u32,
    pub calls: Vec<Call>,
    run_start: Option<(usize, usize)>,
    run_carried: Vec<(bool, usize)>,
    pub deleted: usize,
    pub inserted: usize,
    pub equal: usize,
    /// check carried indices (false when fed through adapters known to lose them)
    pub check_carried: bool,
    /// check that Equal pairs are equal
    pub check_data: bool,
    /// carried indices must equal the cursor at the time of the call
    pub exact_carried: bool,
}

impl<'a> Mon<'a> {
    pub fn new(
        old: &'a dyn Index<usize, Output = Sym>,
        or: Range<usize>,
        new: &'a dyn Index<usize, Output = Sym>,
        nr: Range<usize>,
    ) -> Mon<'a> {
        Mon {
            old,
            new,
            oc: or.start,
            nc: nr.start,
            or,
            nr,
            finished: 0,
            calls: vec![],
            run_start: None,
            run_carried: vec![],
            deleted: 0,
            inserted: 0,
            equal: 0,
            check_carried: true,
            check_data: true,
            exact_carried: false,
        }
    }

    fn pre(&mut self, what: &str) {
        claim!(
            self.finished == 0,
            "{} delivered after finish (calls so far {:?})",
            what,
            self.calls
        );
    }
    fn open_run(&mut self) {
        if self.run_start.is_none() {
            self.run_start = Some((self.oc, self.nc));
        }
    }
    fn close_run(&mut self) {
        if let Some((os, ns)) = self.run_start.take() {
            if self.check_carried {
                for &(is_delete, carried) in &self.run_carried {
                    if is_delete {
                        claim!(
                            carried >= ns && carried <= self.nc,
                            "a Delete carries new index {} outside its run of changes {}..={} (calls {:?})",
                            carried,
                            ns,
                            self.nc,
                            self.calls
                        );
                    } else {
                        claim!(
                            carried >= os && carried <= self.oc,
                            "an Insert carries old index {} outside its run of changes {}..={} (calls {:?})",
                            carried,
                            os,
                            self.oc,
                            self.calls
                        );
                    }
                }
            }
            self.run_carried.clear();
        }
    }

    /// To be called after the diff returned Ok.
    pub fn after_success(&mut self) {
        claim!(
            self.finished == 1,
            "finish called {} times (calls {:?})",
            self.finished,
            self.calls
        );
    }
}

impl<'a> DiffHook for Mon<'a> {
    type Error = String;

    fn equal(&mut self, o: usize, n: usize, len: usize) -> Result<(), String> {
        self.pre("equal");
        self.calls.push(Call::Equal(o, n, len));
        claim!(len > 0, "empty Equal callback (calls {:?})", self.calls);
        claim!(
            o == self.oc && n == self.nc,
            "Equal({},{},{}) does not start at the cursors ({},{}) (calls {:?})",
            o,
            n,
            len,
            self.oc,
            self.nc,
            self.calls
        );
        claim!(
            o + len <= self.or.end && n + len <= self.nr.end,
            "Equal({},{},{}) runs past the ranges {:?}/{:?}",
            o,
            n,
            len,
            self.or,
            self.nr
        );
        self.close_run();
        if self.check_data {
            for i in 0..len {
                let a = self.old[o + i];
                let b = self.new[n + i];
                engine::must_hold(
                    &F::eq(a.0, b.0),
                    &format!("Equal({},{},{}) pairs unequal items at offset {}", o, n, len, i),
                );
            }
        }
        self.oc += len;
        self.nc += len;
        self.equal += len;
        Ok(())
    }

    fn delete(&mut self, o: usize, len: usize, n: usize) -> Result<(), String> {
        self.pre("delete");
        self.calls.push(Call::Delete(o, len, n));
        claim!(len > 0, "empty Delete callback (calls {:?})", self.calls);
        claim!(
            o == self.oc,
            "Delete({},{},{}) does not start at the old cursor {} (calls {:?})",
            o,
            len,
            n,
            self.oc,
            self.calls
        );
        claim!(
            o + len <= self.or.end,
            "Delete({},{},{}) runs past the old range {:?}",
            o,
            len,
            n,
            self.or
        );
        if self.exact_carried {
            claim!(
                n == self.nc,
                "Delete({},{},{}) carries new index {} but the new cursor is {} (calls {:?})",
                o, len, n, n, self.nc, self.calls
            );
        }
        self.open_run();
        self.run_carried.push((true, n));
        self.oc += len;
        self.deleted += len;
        Ok(())
    }

    fn insert(&mut self, o: usize, n: usize, len: usize) -> Result<(), String> {
        self.pre("insert");
        self.calls.push(Call::Insert(o, n, len));
        claim!(len > 0, "empty Insert callback (calls {:?})", self.calls);
        claim!(
            n == self.nc,
            "Insert({},{},{}) does not start at the new cursor {} (calls {:?})",
            o,
            n,
            len,
            self.nc,
            self.calls
        );
        claim!(
            n + len <= self.nr.end,
            "Insert({},{},{}) runs past the new range {:?}",
            o,
            n,
            len,
            self.nr
        );
        if self.exact_carried {
            claim!(
                o == self.oc,
                "Insert({},{},{}) carries old index {} but the old cursor is {} (calls {:?})",
                o, n, len, o, self.oc, self.calls
            );
        }
        self.open_run();
        self.run_carried.push((false, o));
        self.nc += len;
        self.inserted += len;
        Ok(())
    }

    fn replace(&mut self, o: usize, ol: usize, n: usize, nl: usize) -> Result<(), String> {
        self.pre("replace");
        self.calls.push(Call::Replace(o, ol, n, nl));
        claim!(
            ol > 0 && nl > 0,
            "Replace with an empty side (calls {:?})",
            self.calls
        );
        claim!(
            o == self.oc && n == self.nc,
            "Replace({},{},{},{}) does not start at the cursors ({},{}) (calls {:?})",
            o,
            ol,
            n,
            nl,
            self.oc,
            self.nc,
            self.calls
        );
        claim!(
            o + ol <= self.or.end && n + nl <= self.nr.end,
            "Replace({},{},{},{}) runs past the ranges",
            o,
            ol,
            n,
            nl
        );
        self.open_run();
        self.oc += ol;
        self.nc += nl;
        self.deleted += ol;
        self.inserted += nl;
        Ok(())
    }

    fn finish(&mut self) -> Result<(), String> {
        self.pre("finish");
        self.calls.push(Call::Finish);
        self.close_run();
        claim!(
            self.oc == self.or.end && self.nc == self.nr.end,
            "at finish the cursors are ({},{}) but the ranges end at ({},{}) (calls {:?})",
            self.oc,
            self.nc,
            self.or.end,
            self.nr.end,
            self.calls
        );
        self.finished += 1;
        Ok(())
    }
}

/// Reference LCS length over symbolic items (quadratic DP; its comparisons are
/// decided by the same solver and fork the path where the implementation had
/// not asked them).
pub fn ref_lcs(a: &[Sym], b: &[Sym]) -> usize {
    let (n, m) = (a.len(), b.len());
    let mut t = vec![vec![0usize; m + 1]; n + 1];
    for i in (0..n).rev() {
        for j in (0..m).rev() {
            // not Sym::eq: must not count as a comparison of the implementation
            let e = a[i].0 == b[j].0 || engine::decide(engine::Atom::eq(a[i].0, b[j].0));
            t[i][j] = if e {
                t[i + 1][j + 1] + 1
            } else {
                t[i + 1][j].max(t[i][j + 1])
            };
        }
    }
    t[0][0]
}

/// Does the path condition entail that the two item lists are element-wise equal?
pub fn entails_equal(a: &[Sym], b: &[Sym]) -> bool {
    if a.len() != b.len() {
        return false;
    }
    let f = F::And(a.iter().zip(b).map(|(x, y)| F::eq(x.0, y.0)).collect());
    engine::entails(&f)
}
pub fn possibly_equal(a: &[Sym], b: &[Sym]) -> bool {
    if a.len() != b.len() {
        return false;
    }
    let f = F::And(a.iter().zip(b).map(|(x, y)| F::eq(x.0, y.0)).collect());
    engine::possible(&f)
}

#[derive(Clone, Copy, Debug, Default)]
pub struct OpsCheck {
    /// C11: both indices of every op are exact
    pub exact_indices: bool,
    /// C09: canonical normal form
    pub normal_form: bool,
}

/// Validator for a captured op list (C02 walk; optionally C11 / C09).
/// Returns (deleted, inserted, equal) item counts.
pub fn validate_ops(
    ops: &[DiffOp],
    old: &dyn Index<usize, Output = Sym>,
    or: Range<usize>,
    new: &dyn Index<usize, Output = Sym>,
    nr: Range<usize>,
    chk: OpsCheck,
) -> (usize, usize, usize) {
    let (mut oc, mut nc) = (or.start, nr.start);
    let (mut del, mut ins, mut eq) = (0, 0, 0);
    for (k, op) in ops.iter().enumerate() {
        let (tag, o, n) = op.as_tag_tuple();
        match tag {
            DiffTag::Equal => {
                claim!(
                    o.start == oc && n.start == nc,
                    "op #{} {:?} does not start at the next unconsumed items ({},{}) in {:?}",
                    k, op, oc, nc, ops
                );
                claim!(o.len() == n.len(), "Equal op with different lengths {:?}", op);
                claim!(
                    o.end <= or.end && n.end <= nr.end,
                    "op #{} {:?} runs past the ranges in {:?}",
                    k, op, ops
                );
                for i in 0..o.len() {
                    engine::must_hold(
                        &F::eq(old[o.start + i].0, new[n.start + i].0),
                        &format!("op #{} {:?} pairs unequal items at offset {} in {:?}", k, op, i, ops),
                    );
                }
                eq += o.len();
            }
            DiffTag::Delete => {
                claim!(
                    o.start == oc,
                    "op #{} {:?} does not start at the next unconsumed old item {} in {:?}",
                    k, op, oc, ops
                );
                claim!(o.end <= or.end, "op #{} {:?} runs past the old range in {:?}", k, op, ops);
                if chk.exact_indices {
                    claim!(
                        n.start == nc,
                        "op #{} {:?} carries new index {} but {} new items are consumed before it (ops {:?})",
                        k, op, n.start, nc, ops
                    );
                }
                del += o.len();
            }
            DiffTag::Insert => {
                claim!(
                    n.start == nc,
                    "op #{} {:?} does not start at the next unconsumed new item {} in {:?}",
                    k, op, nc, ops
                );
                claim!(n.end <= nr.end, "op #{} {:?} runs past the new range in {:?}", k, op, ops);
                if chk.exact_indices {
                    claim!(
                        o.start == oc,
                        "op #{} {:?} carries old index {} but {} old items are consumed before it (ops {:?})",
                        k, op, o.start, oc, ops
                    );
                }
                ins += n.len();
            }
            DiffTag::Replace => {
                claim!(
                    o.start == oc && n.start == nc,
                    "op #{} {:?} does not start at the next unconsumed items ({},{}) in {:?}",
                    k, op, oc, nc, ops
                );
                claim!(
                    o.end <= or.end && n.end <= nr.end,
                    "op #{} {:?} runs past the ranges in {:?}",
                    k, op, ops
                );
                del += o.len();
                ins += n.len();
            }
        }
        oc += o.len();
        nc += n.len();
        if chk.normal_form {
            claim!(
                !(o.is_empty() && n.is_empty()),
                "op #{} {:?} is empty (ops {:?})",
                k, op, ops
            );
            if tag == DiffTag::Replace {
                claim!(
                    !o.is_empty() && !n.is_empty(),
                    "op #{} {:?} is a Replace with an empty side (ops {:?})",
                    k, op, ops
                );
            }
            if k > 0 {
                let pt = ops[k - 1].tag();
                claim!(
                    (pt == DiffTag::Equal) != (tag == DiffTag::Equal),
                    "ops #{} and #{} do not alternate Equal/non-Equal: {:?}",
                    k - 1, k, ops
                );
            }
            if tag == DiffTag::Equal && k > 0 {
                if let DiffOp::Insert {
                    new_index, new_len, ..
                } = ops[k - 1]
                {
                    if new_len > 0 {
                        // a pure insertion followed by equal items sits at its latest
                        // position: first inserted item differs from the first equal item
                        engine::must_hold(
                            &F::ne(new[new_index].0, old[o.start].0),
                            &format!(
                                "Insert op #{} could slide down: its first item equals the first item of the following Equal (ops {:?})",
                                k - 1, ops
                            ),
                        );
                    }
                }
            }
        }
    }
    claim!(
        oc == or.end && nc == nr.end,
        "the ops end at ({},{}) but the ranges end at ({},{}): {:?}",
        oc, nc, or.end, nr.end, ops
    );
    (del, ins, eq)
}

pub fn ops_json(ops: &[DiffOp]) -> serde_json::Value {
    serde_json::Value::Array(ops.iter().map(|o| serde_json::Value::String(format!("{:?}", o))).collect())
}

// ---------------------------------------------------------------- hooks of /repo (cfg similar_verif)

use std::cell::Cell;
use std::rc::Rc;

/// Symbolic virtual clock (hook H1): every deadline probe is a z3 Bool with a
/// latch (`expired at probe k` implies `expired at probe k+1`).
pub struct Clock {
    pub probes: Rc<Cell<u32>>,
    pub fired_at: Rc<Cell<Option<u32>>>,
    /// the distinct deadlines the probes were about
    pub deadlines_seen: Rc<std::cell::RefCell<Vec<std::time::Instant>>>,
}

pub fn install_clock() -> Clock {
    let probes = Rc::new(Cell::new(0u32));
    let fired_at = Rc::new(Cell::new(None));
    let (p2, f2) = (probes.clone(), fired_at.clone());
    let deadlines_seen = Rc::new(std::cell::RefCell::new(Vec::new()));
    let d2 = deadlines_seen.clone();
    let mut prev: Option<u32> = None;
    similar::verif_clock::install(Some(Box::new(move |dl: std::time::Instant| {
        if !d2.borrow().contains(&dl) {
            d2.borrow_mut().push(dl);
        }
        let k = p2.get();
        p2.set(k + 1);
        if f2.get().is_some() {
            // latched: stays expired
            return true;
        }
        let b = engine::fresh_bool();
        if let Some(p) = prev {
            engine::assume_nocheck(&F::imp(
                F::A(engine::Atom::B(p)),
                F::A(engine::Atom::B(b)),
            ));
        }
        prev = Some(b);
        let r = engine::decide(engine::Atom::B(b));
        if r {
            f2.set(Some(k));
            engine::mark_cmps_once();
        }
        r
    })));
    Clock { probes, fired_at, deadlines_seen }
}

/// Every run starts from a clean hook state.
pub fn reset_hooks() {
    similar::verif_clock::install(None);
    similar::algorithms::verif_swap::set_repair(false);
    similar::algorithms::verif_swap::reset_swaps();
}

pub fn any_instant() -> Option<std::time::Instant> {
    Some(std::time::Instant::now())
}

/// Every probe of the run must have been about exactly this deadline (the one
/// the caller configured): plumbing is exact, not just "some deadline arrived".
pub fn claim_only_deadline(clock: &Clock, expect: std::time::Instant, what: &str) {
    for d in clock.deadlines_seen.borrow().iter() {
        claim!(
            *d == expect,
            "{}: a deadline check was made against a different deadline than the configured one (off by {:?})",
            what,
            if *d > expect { *d - expect } else { expect - *d }
        );
    }
}

pub static CONSTS: std::sync::OnceLock<serde_json::Value> = std::sync::OnceLock::new();
pub fn konst(name: &str) -> u64 {
    CONSTS
        .get()
        .and_then(|c| c[name].as_u64())
        .unwrap_or_else(|| panic!("constant {} missing from constants.json", name))
}

/// All old items differ from all new items on this path?
pub fn entails_disjoint(a: &[Sym], b: &[Sym]) -> bool {
    let mut fs = vec![];
    for x in a {
        for y in b {
            fs.push(F::ne(x.0, y.0));
        }
    }
    engine::entails(&F::And(fs))
}


/// All block-structured layouts: sequences of 0..=max_blocks blocks over 3 block types per side.
pub fn block_layouts(max_blocks: usize, blen: usize) -> Vec<Layout> {
    fn seqs(max: usize) -> Vec<[u8; 5]> {
        let mut out = vec![[255u8; 5]];
        let mut cur = vec![([255u8; 5], 0usize)];
        for _ in 0..max {
            let mut nx = vec![];
            for (a, l) in &cur {
                for t in 0..3u8 {
                    let mut b = *a;
                    b[*l] = t;
                    nx.push((b, l + 1));
                }
            }
            out.extend(nx.iter().map(|x| x.0));
            cur = nx;
        }
        out
    }
    let ss = seqs(max_blocks.min(5));
    let mut v = vec![];
    for o in &ss {
        for n in &ss {
            let canonical = true; // block types have different lengths: no renaming symmetry
            if canonical {
                v.push(Layout::Blocks { old: *o, new: *n, blen });
            }
        }
    }
    v
}

/// block type 1 is one item shorter than types 0 and 2 (so that blocks of different weight meet)
pub fn block_type_len(t: usize, blen: usize) -> usize {
    if t == 1 {
        (blen - 1).max(1)
    } else {
        blen
    }
}

pub fn layout_lens(l: &Layout, n: usize, m: usize) -> (usize, usize) {
    match l {
        Layout::Blocks { old, new, blen } => {
            let f = |bs: &[u8; 5]| bs.iter().filter(|b| **b != 255).map(|b| block_type_len(*b as usize, *blen)).sum::<usize>();
            (f(old), f(new))
        }
        Layout::Long { fam, k, var, .. } => {
            let (o, nw, _) = long_pattern(*fam, *k as usize, *var);
            (o.len(), nw.len())
        }
        _ => (n, m),
    }
}
