//! `SymTxt`: an unsized "string" whose characters are symbolic (`Sym`), with an
//! `impl DiffableStr`, so that the real generic text layer of `similar`
//! (TextDiff, iterators, UnifiedDiff, inline changes, remapper, close matches)
//! runs on symbolic text.  The character *classes* (ordinary / LF / CR / space /
//! punctuation) are part of the shape and therefore concrete; the path condition
//! pins each class to its own value range so the solver can never identify a
//! line break with an ordinary character.
use crate::engine::{self, Atom, F};
use crate::sym::Sym;
use similar::DiffableStr;
use std::borrow::{Borrow, Cow};
use std::cell::RefCell;
use std::cmp::Ordering;
use std::collections::HashMap;
use std::hash::{Hash, Hasher};
use std::ops::Range;

#[derive(Clone, Copy, PartialEq, Eq, Debug)]
pub enum Class {
    Ord,
    Lf,
    Cr,
    Space,
    Punct,
    /// first / second unit of a character that occupies two units (like a multi-byte
    /// scalar in a str): `len()` counts units, `tokenize_chars` yields one token for both
    Lead,
    Cont,
}

thread_local! {
    static CLASSES: RefCell<HashMap<u32, Class>> = RefCell::new(HashMap::new());
    static ARENA: RefCell<Vec<Box<[u8]>>> = const { RefCell::new(Vec::new()) };
    static BYTE_MODE: std::cell::Cell<bool> = const { std::cell::Cell::new(false) };
    static LONG: RefCell<Vec<Sym>> = const { RefCell::new(Vec::new()) };
}

/// Units in the long word that the pattern character 'L' stands for (one symbolic character
/// repeated; one word shared by every
/// text of a run, so that what follows it sits at an offset of 65 536 units or more).
pub const LONG_WORD: usize = 65_541;

/// Start of a run: forget classes and rendered bytes of the previous run.
pub fn reset() {
    CLASSES.with(|c| c.borrow_mut().clear());
    ARENA.with(|a| a.borrow_mut().clear());
    BYTE_MODE.with(|b| b.set(false));
    LONG.with(|l| l.borrow_mut().clear());
}
/// In byte mode every ordinary character renders with a leading 0xFF byte
/// (invalid UTF-8), so that lossy decoding differs from the raw bytes.
pub fn set_byte_mode(on: bool) {
    BYTE_MODE.with(|b| b.set(on));
}

pub fn class_of(s: Sym) -> Class {
    CLASSES.with(|c| *c.borrow().get(&s.0).unwrap_or(&Class::Ord))
}

pub const MAX_ORD: i64 = 20000;

/// Fresh symbolic character of a class, with its value-range assumption.
pub fn fresh_char(class: Class) -> Sym {
    let s = Sym::fresh();
    CLASSES.with(|c| c.borrow_mut().insert(s.0, class));
    let f = match class {
        Class::Ord => F::And(vec![F::not(F::A(Atom::LtC(s.0, 0))), F::A(Atom::LtC(s.0, MAX_ORD))]),
        Class::Lf => F::A(Atom::EqC(s.0, -1)),
        Class::Cr => F::A(Atom::EqC(s.0, -2)),
        Class::Space => F::A(Atom::EqC(s.0, -3)),
        // a handful of different punctuation characters
        Class::Punct => F::And(vec![F::not(F::A(Atom::LtC(s.0, -19))), F::A(Atom::LtC(s.0, -9))]),
        Class::Lead => F::And(vec![F::not(F::A(Atom::LtC(s.0, 30000))), F::A(Atom::LtC(s.0, 40000))]),
        Class::Cont => F::And(vec![F::not(F::A(Atom::LtC(s.0, 40000))), F::A(Atom::LtC(s.0, 50000))]),
    };
    engine::assume_nocheck(&f);
    s
}

/// Builds a text from a pattern: 'x' (any letter) = fresh ordinary character,
/// 'W' = fresh two-unit character, '\n', '\r', ' ', '.' = LF, CR, space, punctuation.
pub fn text_from_pattern(p: &str) -> Vec<Sym> {
    let mut out = vec![];
    for c in p.chars() {
        match c {
            '\n' => out.push(fresh_char(Class::Lf)),
            '\r' => out.push(fresh_char(Class::Cr)),
            ' ' => out.push(fresh_char(Class::Space)),
            '.' => out.push(fresh_char(Class::Punct)),
            'W' => {
                out.push(fresh_char(Class::Lead));
                out.push(fresh_char(Class::Cont));
            }
            'L' => LONG.with(|l| {
                let mut l = l.borrow_mut();
                if l.is_empty() {
                    *l = vec![fresh_char(Class::Ord); LONG_WORD];
                }
                out.extend_from_slice(&l);
            }),
            _ => out.push(fresh_char(Class::Ord)),
        }
    }
    out
}

const PUNCT: &[u8] = b"().,;:!?-+";

/// Rendering of one character from its value (after the model is pinned).
pub fn render_char(s: Sym, out: &mut Vec<u8>) {
    let v = engine::value_of(s.0);
    match class_of(s) {
        Class::Lf => out.push(b'\n'),
        Class::Cr => out.push(b'\r'),
        Class::Space => out.push(b' '),
        Class::Punct => out.push(PUNCT[((v + 19).rem_euclid(10)) as usize]),
        Class::Lead => out.push(0xC4 + ((v - 30000).rem_euclid(16)) as u8),
        Class::Cont => out.push(0x80 + ((v - 40000).rem_euclid(64)) as u8),
        Class::Ord => {
            if BYTE_MODE.with(|b| b.get()) {
                out.push(0xFF);
            }
            let c = if v < 26 {
                char::from_u32('a' as u32 + v as u32).unwrap()
            } else if v < 26 + 128 {
                char::from_u32(0x100 + (v as u32 - 26)).unwrap()
            } else {
                char::from_u32(0x4E00 + (v as u32 - 154)).unwrap()
            };
            let mut b = [0u8; 4];
            out.extend_from_slice(c.encode_utf8(&mut b).as_bytes());
        }
    }
}

pub fn render(chars: &[Sym]) -> Vec<u8> {
    engine::pin_model();
    let mut out = vec![];
    for c in chars {
        render_char(*c, &mut out);
    }
    out
}

#[repr(transparent)]
pub struct SymTxt([Sym]);

impl SymTxt {
    pub fn new(s: &[Sym]) -> &SymTxt {
        // SAFETY: repr(transparent) over [Sym]
        unsafe { &*(s as *const [Sym] as *const SymTxt) }
    }
    pub fn chars(&self) -> &[Sym] {
        &self.0
    }
    pub fn ptr_range(&self) -> (usize, usize) {
        (self.0.as_ptr() as usize, self.0.len())
    }
    fn is_nl(c: Sym) -> bool {
        matches!(class_of(c), Class::Lf | Class::Cr)
    }
    fn is_ws(c: Sym) -> bool {
        matches!(class_of(c), Class::Lf | Class::Cr | Class::Space)
    }
    fn runs(&self, key: impl Fn(Sym) -> u8) -> Vec<&SymTxt> {
        let mut out = vec![];
        let mut start = 0;
        for i in 1..=self.0.len() {
            if i == self.0.len() || key(self.0[i]) != key(self.0[i - 1]) {
                out.push(SymTxt::new(&self.0[start..i]));
                start = i;
            }
        }
        if self.0.is_empty() {
            out.clear();
        }
        out
    }
}

impl std::fmt::Debug for SymTxt {
    fn fmt(&self, f: &mut std::fmt::Formatter<'_>) -> std::fmt::Result {
        write!(f, "T{:?}", self.0.iter().map(|s| s.0).collect::<Vec<_>>())
    }
}

impl PartialEq for SymTxt {
    fn eq(&self, o: &SymTxt) -> bool {
        self.0.len() == o.0.len() && self.0.iter().zip(o.0.iter()).all(|(a, b)| a == b)
    }
}
impl Eq for SymTxt {}
impl PartialOrd for SymTxt {
    fn partial_cmp(&self, o: &SymTxt) -> Option<Ordering> {
        Some(self.cmp(o))
    }
}
impl Ord for SymTxt {
    fn cmp(&self, o: &SymTxt) -> Ordering {
        for (a, b) in self.0.iter().zip(o.0.iter()) {
            match a.cmp(b) {
                Ordering::Equal => {}
                x => return x,
            }
        }
        self.0.len().cmp(&o.0.len())
    }
}
impl Hash for SymTxt {
    fn hash<H: Hasher>(&self, h: &mut H) {
        self.0.len().hash(h);
        for c in &self.0 {
            c.hash(h);
        }
    }
}

pub struct SymTxtBuf(pub Vec<Sym>);
impl Borrow<SymTxt> for SymTxtBuf {
    fn borrow(&self) -> &SymTxt {
        SymTxt::new(&self.0)
    }
}
impl ToOwned for SymTxt {
    type Owned = SymTxtBuf;
    fn to_owned(&self) -> SymTxtBuf {
        SymTxtBuf(self.0.to_vec())
    }
}

impl DiffableStr for SymTxt {
    fn tokenize_lines(&self) -> Vec<&Self> {
        let c = &self.0;
        let mut out = vec![];
        let mut start = 0;
        let mut i = 0;
        while i < c.len() {
            match class_of(c[i]) {
                Class::Lf => {
                    out.push(SymTxt::new(&c[start..=i]));
                    start = i + 1;
                }
                Class::Cr => {
                    if i + 1 < c.len() && class_of(c[i + 1]) == Class::Lf {
                        i += 1;
                    }
                    out.push(SymTxt::new(&c[start..=i]));
                    start = i + 1;
                }
                _ => {}
            }
            i += 1;
        }
        if start < c.len() {
            out.push(SymTxt::new(&c[start..]));
        }
        out
    }
    fn tokenize_lines_and_newlines(&self) -> Vec<&Self> {
        self.runs(|c| SymTxt::is_nl(c) as u8)
    }
    fn tokenize_words(&self) -> Vec<&Self> {
        self.runs(|c| SymTxt::is_ws(c) as u8)
    }
    fn tokenize_chars(&self) -> Vec<&Self> {
        let c = &self.0;
        let mut out = vec![];
        let mut i = 0;
        while i < c.len() {
            let w = if class_of(c[i]) == Class::Lead && i + 1 < c.len() && class_of(c[i + 1]) == Class::Cont { 2 } else { 1 };
            out.push(SymTxt::new(&c[i..i + w]));
            i += w;
        }
        out
    }
    fn tokenize_unicode_words(&self) -> Vec<&Self> {
        // ordinary runs are words, whitespace runs stay together, every
        // punctuation character is its own token
        let c = &self.0;
        let mut out = vec![];
        let mut start = 0;
        for i in 1..=c.len() {
            let cut = i == c.len() || {
                let (a, b) = (class_of(c[i - 1]), class_of(c[i]));
                let k = |x: Class| match x {
                    Class::Ord | Class::Lead | Class::Cont => 0,
                    Class::Punct => 1,
                    _ => 2,
                };
                k(a) != k(b) || a == Class::Punct
            };
            if cut && i > start {
                out.push(SymTxt::new(&c[start..i]));
                start = i;
            }
        }
        out
    }
    fn tokenize_graphemes(&self) -> Vec<&Self> {
        let c = &self.0;
        let mut out = vec![];
        let mut i = 0;
        while i < c.len() {
            if (class_of(c[i]) == Class::Cr && i + 1 < c.len() && class_of(c[i + 1]) == Class::Lf)
                || (class_of(c[i]) == Class::Lead && i + 1 < c.len() && class_of(c[i + 1]) == Class::Cont)
            {
                out.push(SymTxt::new(&c[i..i + 2]));
                i += 2;
            } else {
                out.push(SymTxt::new(&c[i..i + 1]));
                i += 1;
            }
        }
        out
    }
    fn as_str(&self) -> Option<&str> {
        None
    }
    fn to_string_lossy(&self) -> Cow<'_, str> {
        Cow::Owned(String::from_utf8_lossy(&render(&self.0)).into_owned())
    }
    fn ends_with_newline(&self) -> bool {
        self.0.last().map_or(false, |c| SymTxt::is_nl(*c))
    }
    fn len(&self) -> usize {
        self.0.len()
    }
    fn slice(&self, rng: Range<usize>) -> &Self {
        SymTxt::new(&self.0[rng])
    }
    fn as_bytes(&self) -> &[u8] {
        let b: Box<[u8]> = render(&self.0).into_boxed_slice();
        let p: *const [u8] = &*b;
        ARENA.with(|a| a.borrow_mut().push(b));
        // SAFETY: the arena keeps the allocation alive until `reset()` at the
        // start of the next run, after every borrower of this run is gone.
        unsafe { &*p }
    }
}
