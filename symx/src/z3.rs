//! Minimal hand-written FFI to libz3 (C API of z3 4.8.12).
#![allow(non_camel_case_types, dead_code)]

use std::os::raw::{c_int, c_uint, c_void};

pub type Z3_config = *mut c_void;
pub type Z3_context = *mut c_void;
pub type Z3_solver = *mut c_void;
pub type Z3_model = *mut c_void;
pub type Z3_ast = *mut c_void;
pub type Z3_sort = *mut c_void;
pub type Z3_symbol = *mut c_void;

pub const L_FALSE: c_int = -1;
pub const L_UNDEF: c_int = 0;
pub const L_TRUE: c_int = 1;

extern "C" {
    fn Z3_mk_config() -> Z3_config;
    fn Z3_del_config(c: Z3_config);
    fn Z3_mk_context(c: Z3_config) -> Z3_context;
    fn Z3_del_context(c: Z3_context);
    fn Z3_set_error_handler(c: Z3_context, h: Option<extern "C" fn(Z3_context, c_int)>);
    fn Z3_mk_simple_solver(c: Z3_context) -> Z3_solver;
    fn Z3_solver_inc_ref(c: Z3_context, s: Z3_solver);
    fn Z3_solver_dec_ref(c: Z3_context, s: Z3_solver);
    fn Z3_solver_push(c: Z3_context, s: Z3_solver);
    fn Z3_solver_pop(c: Z3_context, s: Z3_solver, n: c_uint);
    fn Z3_solver_assert(c: Z3_context, s: Z3_solver, a: Z3_ast);
    fn Z3_solver_check(c: Z3_context, s: Z3_solver) -> c_int;
    fn Z3_solver_check_assumptions(
        c: Z3_context,
        s: Z3_solver,
        n: c_uint,
        a: *const Z3_ast,
    ) -> c_int;
    fn Z3_solver_get_model(c: Z3_context, s: Z3_solver) -> Z3_model;
    fn Z3_model_inc_ref(c: Z3_context, m: Z3_model);
    fn Z3_model_dec_ref(c: Z3_context, m: Z3_model);
    fn Z3_model_eval(c: Z3_context, m: Z3_model, t: Z3_ast, completion: bool, v: *mut Z3_ast)
        -> bool;
    fn Z3_get_numeral_int64(c: Z3_context, v: Z3_ast, i: *mut i64) -> bool;
    fn Z3_get_bool_value(c: Z3_context, a: Z3_ast) -> c_int;
    fn Z3_mk_int_sort(c: Z3_context) -> Z3_sort;
    fn Z3_mk_bool_sort(c: Z3_context) -> Z3_sort;
    fn Z3_mk_int_symbol(c: Z3_context, i: c_int) -> Z3_symbol;
    fn Z3_mk_const(c: Z3_context, s: Z3_symbol, ty: Z3_sort) -> Z3_ast;
    fn Z3_mk_eq(c: Z3_context, l: Z3_ast, r: Z3_ast) -> Z3_ast;
    fn Z3_mk_not(c: Z3_context, a: Z3_ast) -> Z3_ast;
    fn Z3_mk_lt(c: Z3_context, l: Z3_ast, r: Z3_ast) -> Z3_ast;
    fn Z3_mk_le(c: Z3_context, l: Z3_ast, r: Z3_ast) -> Z3_ast;
    fn Z3_mk_implies(c: Z3_context, l: Z3_ast, r: Z3_ast) -> Z3_ast;
    fn Z3_mk_and(c: Z3_context, n: c_uint, args: *const Z3_ast) -> Z3_ast;
    fn Z3_mk_or(c: Z3_context, n: c_uint, args: *const Z3_ast) -> Z3_ast;
    fn Z3_mk_distinct(c: Z3_context, n: c_uint, args: *const Z3_ast) -> Z3_ast;
    fn Z3_mk_int64(c: Z3_context, v: i64, ty: Z3_sort) -> Z3_ast;
    fn Z3_mk_true(c: Z3_context) -> Z3_ast;
    fn Z3_mk_false(c: Z3_context) -> Z3_ast;
    fn Z3_ast_to_string(c: Z3_context, a: Z3_ast) -> *const std::os::raw::c_char;
    fn Z3_get_full_version() -> *const std::os::raw::c_char;
    fn Z3_mk_params(c: Z3_context) -> *mut c_void;
    fn Z3_params_inc_ref(c: Z3_context, p: *mut c_void);
    fn Z3_params_dec_ref(c: Z3_context, p: *mut c_void);
    fn Z3_params_set_bool(c: Z3_context, p: *mut c_void, k: Z3_symbol, v: bool);
    fn Z3_mk_string_symbol(c: Z3_context, s: *const std::os::raw::c_char) -> Z3_symbol;
    fn Z3_solver_set_params(c: Z3_context, s: Z3_solver, p: *mut c_void);
}

thread_local! {
    pub static LAST_MODEL_PROBLEM: std::cell::RefCell<Option<String>> = const { std::cell::RefCell::new(None) };
    static Z3_ERR: std::cell::Cell<i32> = const { std::cell::Cell::new(0) };
}

extern "C" fn on_error(_c: Z3_context, code: c_int) {
    Z3_ERR.with(|e| e.set(code as i32));
}

pub fn take_error() -> i32 {
    Z3_ERR.with(|e| e.replace(0))
}

pub fn version() -> String {
    unsafe {
        std::ffi::CStr::from_ptr(Z3_get_full_version())
            .to_string_lossy()
            .into_owned()
    }
}

/// One z3 context + one incremental solver.  Not Send: one per worker thread.
pub struct Z3 {
    ctx: Z3_context,
    solver: Z3_solver,
    int_sort: Z3_sort,
    bool_sort: Z3_sort,
    pub n_check: u64,
    pub n_sat: u64,
    pub n_unsat: u64,
    pub solver_ns: u128,
}

#[derive(Clone, Copy, PartialEq, Eq, Debug)]
pub struct Ast(pub Z3_ast);

impl Z3 {
    pub fn new() -> Z3 {
        unsafe {
            let cfg = Z3_mk_config();
            let ctx = Z3_mk_context(cfg);
            Z3_del_config(cfg);
            Z3_set_error_handler(ctx, Some(on_error));
            let solver = Z3_mk_simple_solver(ctx);
            Z3_solver_inc_ref(ctx, solver);
            // no SIGINT handler juggling around every check-sat (it is two
            // process-wide rt_sigaction calls per query and serialises the workers)
            let params = Z3_mk_params(ctx);
            Z3_params_inc_ref(ctx, params);
            let k = Z3_mk_string_symbol(ctx, b"ctrl_c\0".as_ptr() as *const _);
            Z3_params_set_bool(ctx, params, k, false);
            Z3_solver_set_params(ctx, solver, params);
            Z3_params_dec_ref(ctx, params);
            let int_sort = Z3_mk_int_sort(ctx);
            let bool_sort = Z3_mk_bool_sort(ctx);
            Z3 {
                ctx,
                solver,
                int_sort,
                bool_sort,
                n_check: 0,
                n_sat: 0,
                n_unsat: 0,
                solver_ns: 0,
            }
        }
    }

    pub fn int_const(&self, id: u32) -> Ast {
        unsafe {
            let s = Z3_mk_int_symbol(self.ctx, id as c_int);
            Ast(Z3_mk_const(self.ctx, s, self.int_sort))
        }
    }
    pub fn bool_const(&self, id: u32) -> Ast {
        unsafe {
            // separate namespace from the int constants
            let s = Z3_mk_int_symbol(self.ctx, (id + (1 << 24)) as c_int);
            Ast(Z3_mk_const(self.ctx, s, self.bool_sort))
        }
    }
    pub fn int(&self, v: i64) -> Ast {
        unsafe { Ast(Z3_mk_int64(self.ctx, v, self.int_sort)) }
    }
    pub fn eq(&self, a: Ast, b: Ast) -> Ast {
        unsafe { Ast(Z3_mk_eq(self.ctx, a.0, b.0)) }
    }
    pub fn lt(&self, a: Ast, b: Ast) -> Ast {
        unsafe { Ast(Z3_mk_lt(self.ctx, a.0, b.0)) }
    }
    pub fn le(&self, a: Ast, b: Ast) -> Ast {
        unsafe { Ast(Z3_mk_le(self.ctx, a.0, b.0)) }
    }
    pub fn not(&self, a: Ast) -> Ast {
        unsafe { Ast(Z3_mk_not(self.ctx, a.0)) }
    }
    pub fn implies(&self, a: Ast, b: Ast) -> Ast {
        unsafe { Ast(Z3_mk_implies(self.ctx, a.0, b.0)) }
    }
    pub fn and(&self, xs: &[Ast]) -> Ast {
        unsafe {
            if xs.is_empty() {
                return Ast(Z3_mk_true(self.ctx));
            }
            let v: Vec<Z3_ast> = xs.iter().map(|a| a.0).collect();
            Ast(Z3_mk_and(self.ctx, v.len() as c_uint, v.as_ptr()))
        }
    }
    pub fn or(&self, xs: &[Ast]) -> Ast {
        unsafe {
            if xs.is_empty() {
                return Ast(Z3_mk_false(self.ctx));
            }
            let v: Vec<Z3_ast> = xs.iter().map(|a| a.0).collect();
            Ast(Z3_mk_or(self.ctx, v.len() as c_uint, v.as_ptr()))
        }
    }
    pub fn distinct(&self, xs: &[Ast]) -> Ast {
        unsafe {
            let v: Vec<Z3_ast> = xs.iter().map(|a| a.0).collect();
            Ast(Z3_mk_distinct(self.ctx, v.len() as c_uint, v.as_ptr()))
        }
    }
    pub fn to_string(&self, a: Ast) -> String {
        unsafe {
            std::ffi::CStr::from_ptr(Z3_ast_to_string(self.ctx, a.0))
                .to_string_lossy()
                .into_owned()
        }
    }

    pub fn push(&mut self) {
        unsafe { Z3_solver_push(self.ctx, self.solver) }
    }
    pub fn pop(&mut self, n: u32) {
        unsafe { Z3_solver_pop(self.ctx, self.solver, n as c_uint) }
    }
    pub fn assert(&mut self, a: Ast) {
        unsafe { Z3_solver_assert(self.ctx, self.solver, a.0) }
    }

    /// check-sat of (asserted formulas AND lit).  Returns L_TRUE / L_FALSE / L_UNDEF.
    pub fn check_with(&mut self, lit: Ast) -> c_int {
        let t0 = std::time::Instant::now();
        let r = unsafe { Z3_solver_check_assumptions(self.ctx, self.solver, 1, &lit.0) };
        self.solver_ns += t0.elapsed().as_nanos();
        self.n_check += 1;
        match r {
            L_TRUE => self.n_sat += 1,
            L_FALSE => self.n_unsat += 1,
            _ => {}
        }
        r
    }
    pub fn check(&mut self) -> c_int {
        let t0 = std::time::Instant::now();
        let r = unsafe { Z3_solver_check(self.ctx, self.solver) };
        self.solver_ns += t0.elapsed().as_nanos();
        self.n_check += 1;
        match r {
            L_TRUE => self.n_sat += 1,
            L_FALSE => self.n_unsat += 1,
            _ => {}
        }
        r
    }

    /// Model of the last satisfiable check: evaluates the given int terms
    /// (model completion on).
    pub fn model_ints(&mut self, terms: &[Ast]) -> Option<Vec<i64>> {
        unsafe {
            let m = Z3_solver_get_model(self.ctx, self.solver);
            if m.is_null() {
                return None;
            }
            Z3_model_inc_ref(self.ctx, m);
            let mut out = Vec::with_capacity(terms.len());
            let mut ok = true;
            for t in terms {
                let mut v: Z3_ast = std::ptr::null_mut();
                if !Z3_model_eval(self.ctx, m, t.0, true, &mut v) {
                    ok = false;
                    break;
                }
                let mut i: i64 = 0;
                if !Z3_get_numeral_int64(self.ctx, v, &mut i) {
                    // not an int64 numeral (z3 is free to pick huge values for unconstrained
                    // constants); remember what it was
                    let txt = std::ffi::CStr::from_ptr(Z3_ast_to_string(self.ctx, v)).to_string_lossy().into_owned();
                    LAST_MODEL_PROBLEM.with(|p| *p.borrow_mut() = Some(format!("value of {} is {}", std::ffi::CStr::from_ptr(Z3_ast_to_string(self.ctx, t.0)).to_string_lossy(), txt)));
                    ok = false;
                    break;
                }
                out.push(i);
            }
            Z3_model_dec_ref(self.ctx, m);
            if ok {
                Some(out)
            } else {
                None
            }
        }
    }

    pub fn model_bools(&mut self, terms: &[Ast]) -> Option<Vec<bool>> {
        unsafe {
            let m = Z3_solver_get_model(self.ctx, self.solver);
            if m.is_null() {
                return None;
            }
            Z3_model_inc_ref(self.ctx, m);
            let mut out = Vec::with_capacity(terms.len());
            let mut ok = true;
            for t in terms {
                let mut v: Z3_ast = std::ptr::null_mut();
                if !Z3_model_eval(self.ctx, m, t.0, true, &mut v) {
                    ok = false;
                    break;
                }
                match Z3_get_bool_value(self.ctx, v) {
                    L_TRUE => out.push(true),
                    L_FALSE => out.push(false),
                    _ => {
                        ok = false;
                        break;
                    }
                }
            }
            Z3_model_dec_ref(self.ctx, m);
            if ok {
                Some(out)
            } else {
                None
            }
        }
    }
}

impl Drop for Z3 {
    fn drop(&mut self) {
        unsafe {
            Z3_solver_dec_ref(self.ctx, self.solver);
            Z3_del_context(self.ctx);
        }
    }
}
